/-
C03 — sequential string sorters of tlx (tlx/sort/strings/*.hpp): shared definitions of the model.

Strings are `List UInt8` (NUL-free where a theorem needs it); a string *object* (a `char*`, a
`std::string`, a `unique_ptr<std::string>`, a suffix index) is an arbitrary `α` with a projection
`str : α → Str` — the sorters only ever look at the characters of an object.

The LCP array is a `List Nat` of the same length as the string range it belongs to (the C++ code
hands sub-ranges `lcp_ + offset` to the sub-sorters; the model splits and re-joins the list at the
same offsets).  Entry 0 of a range is never written by the sorter of that range.
-/
namespace TlxVerif.C03

abbrev Str := List UInt8

/-- `get_uint8` / `get_char` (string_set.hpp:106-114, 97-102): the byte at `d`, 0 at the end
(the NUL terminator of a C string; `is_end` of the other representations) -/
def charAt (s : Str) (d : Nat) : UInt8 := s.getD d 0

/-- `get_uint16` (string_set.hpp:118-132): two bytes big-endian, the second one only if the first
is not the end -/
def key16 (s : Str) (d : Nat) : Nat :=
  match s.drop d with
  | [] => 0
  | [c] => c.toNat <<< 8
  | c :: c2 :: _ => (c.toNat <<< 8) ||| c2.toNat

def key8 (s : Str) (d : Nat) : Nat := (charAt s d).toNat

/-- number of iterations of `while (ss.is_equal(a, ai, b, bi)) ++ai, ++bi;` — the longest common
prefix of the two character sequences -/
def lcp : Str → Str → Nat
  | x :: xs, y :: ys => if x = y then lcp xs ys + 1 else 0
  | _, _ => 0

/-- `is_leq` (string_set.hpp:82-90) on the two character iterators -/
def isLeq : Str → Str → Bool
  | [], _ => true
  | _ :: _, [] => false
  | x :: _, y :: _ => x ≤ y

/-- `is_less` (string_set.hpp:71-79); despite its name it answers true when both iterators are at
the end -/
def isLess : Str → Str → Bool
  | [], _ => true
  | _ :: _, [] => false
  | x :: _, y :: _ => x < y

/-- the exact LCP values of neighbours: `adjLcps [s0,s1,s2] = [lcp s0 s1, lcp s1 s2]` -/
def adjLcps : List Str → List Nat
  | a :: b :: rest => lcp a b :: adjLcps (b :: rest)
  | _ => []

/-- `for (i = lo; i < hi; ++i) set_lcp(i, v)` -/
def setRange (l : List Nat) (lo hi v : Nat) : List Nat :=
  l.mapIdx fun i x => if lo ≤ i ∧ i < hi then v else x

/-- `set_lcp(p, v)` for every `p` of a list of positions -/
def setAll (l : List Nat) (ps : List Nat) (v : Nat) : List Nat :=
  ps.foldl (fun l p => l.set p v) l

/-- array implementation of `setAll` for the compiled driver (proved equal, `@[csimp]`) -/
def setAllFast (l : List Nat) (ps : List Nat) (v : Nat) : List Nat :=
  (ps.foldl (fun (a : Array Nat) p => a.setIfInBounds p v) l.toArray).toList

theorem setAllFast_go (ps : List Nat) (v : Nat) (a : Array Nat) :
    (ps.foldl (fun (a : Array Nat) p => a.setIfInBounds p v) a).toList
      = ps.foldl (fun l p => l.set p v) a.toList := by
  induction ps generalizing a with
  | nil => rfl
  | cons p ps ih => simp [List.foldl_cons, ih]

@[csimp] theorem setAll_eq_fast : @setAll = @setAllFast := by
  funext l ps v
  simp [setAll, setAllFast, setAllFast_go]

/-- `set_lcp(p.1, depth + p.2)` for a list of (position, increment) pairs -/
def setPairs (l : List Nat) (ps : List (Nat × Nat)) (depth : Nat) : List Nat :=
  ps.foldl (fun l p => l.set p.1 (depth + p.2)) l

/-- array implementation of `setPairs` for the compiled driver (proved equal, `@[csimp]`) -/
def setPairsFast (l : List Nat) (ps : List (Nat × Nat)) (depth : Nat) : List Nat :=
  (ps.foldl (fun (a : Array Nat) p => a.setIfInBounds p.1 (depth + p.2)) l.toArray).toList

theorem setPairsFast_go (ps : List (Nat × Nat)) (depth : Nat) (a : Array Nat) :
    (ps.foldl (fun (a : Array Nat) p => a.setIfInBounds p.1 (depth + p.2)) a).toList
      = ps.foldl (fun l p => l.set p.1 (depth + p.2)) a.toList := by
  induction ps generalizing a with
  | nil => rfl
  | cons p ps ih => simp [List.foldl_cons, ih]

@[csimp] theorem setPairs_eq_fast : @setPairs = @setPairsFast := by
  funext l ps depth
  simp [setPairs, setPairsFast, setPairsFast_go]

/-- cut a list into consecutive pieces of the given sizes (sub-ranges `sub(offset, size)`) -/
def splitBy {β : Type} : List Nat → List β → List (List β)
  | [], _ => []
  | s :: rest, l => l.take s :: splitBy rest (l.drop s)

/-- what one distribution pass computes: bucket `b` receives, in input order, the elements with
key `b`.  (Specification of `scatterBuckets` below, see `scatterBuckets_eq`.) -/
def buckets {α : Type} (R : Nat) (key : α → Nat) (ss : List α) : Array (List α) :=
  ss.foldr (fun x acc => acc.modify (key x) (x :: ·)) (Array.replicate R [])

/-- the out-of-place distribution of RadixStep_CE0 / CE2 / CE3 (radix_sort.hpp:61-74), literally:
count the keys, `bkt_index[0] = shadow.begin(); bkt_index[i] = bkt_index[i-1] + bkt_size[i-1]`,
then `*(bkt_index[key]++) = std::move(ss[i])` into the shadow array (whose old contents are
arbitrary — here a copy of the input).  Returns the shadow array and `bkt_size`. -/
def scatter {α : Type} (R : Nat) (key : α → Nat) (ss : List α) : Array α × Array Nat :=
  let sizes := ss.foldl (fun acc x => acc.modify (key x) (· + 1)) (Array.replicate R 0)
  let idx := (sizes.toList.foldl (fun (st : List Nat × Nat) s => (st.2 :: st.1, st.2 + s)) ([], 0)).1.reverse.toArray
  let st := ss.foldl (fun (st : Array α × Array Nat) x =>
      (st.1.setIfInBounds (st.2.getD (key x) 0) x, st.2.modify (key x) (· + 1))) (ss.toArray, idx)
  (st.1, sizes)

/-- the buckets of a step as sub-ranges of the shadow array (`strptr.flip(pos, bkt_size)`) -/
def scatterBuckets {α : Type} (R : Nat) (key : α → Nat) (ss : List α) : List (List α) :=
  splitBy (scatter R key ss).2.toList (scatter R key ss).1.toList

/-- `size_t` subtraction (wraps around) -/
def wsub (a b : Nat) : Nat := (a + 2 ^ 64 - b % 2 ^ 64) % 2 ^ 64

/-- the `sizeof` values the memory-limit logic depends on (regenerated from the sources into
`Gen/C03Consts.lean` on every run); every theorem quantifies over all of them -/
structure Consts where
  szSet : Nat    -- sizeof(StringSet)
  szStr : Nat    -- sizeof(StringSet::String)
  szIter : Nat   -- sizeof(StringSet::Iterator)
  stepCE0 : Nat  -- sizeof(RadixStep_CE0<StringPtr::WithShadow>)
  stepCE2 : Nat
  stepCE3 : Nat
  stepCI2 : Nat  -- sizeof(RadixStep_CI2<StringPtr>)
  stepCI3 : Nat
  deriving Repr, Inhabited

/-- g_inssort_threshold -/
def inssortThreshold : Nat := 32

/-- the set of the border positions of the LCP loop after an 8-bit step (radix_sort.hpp:92-105,
the same text in RadixStep_CE2 and RadixStep_CI2), on the remaining bucket sizes `bkt_size[i..255]`:
```
while (i < 256) {
    while (i < 256 && bkt_size[i] == 0) ++i;
    if (i >= 256) break;                 // (the fix of D23; the original read bkt_size[256] here)
    bkt += bkt_size[i];
    if (bkt >= size) break;
    strptr.set_lcp(bkt, depth);
    ++i;
}
``` -/
def borderGo (size : Nat) : List Nat → Nat → List Nat
  | [], _ => []
  | s :: rest, bkt =>
    if s = 0 then borderGo size rest bkt
    else
      let bkt' := bkt + s
      if bkt' ≥ size then [] else bkt' :: borderGo size rest bkt'

/-- `size_t bkt = bkt_size[0], i = 1; if (bkt > 0 && bkt < size) set_lcp(bkt, depth); while …` -/
def borderPositions (sizes : List Nat) (size : Nat) : List Nat :=
  let bkt := sizes.headD 0
  (if 0 < bkt ∧ bkt < size then [bkt] else []) ++ borderGo size (sizes.drop 1) bkt

/-- the LCP stores of an 8-bit radix step: inside the finished bucket 0 and at the bucket borders -/
def stepLcp8 (sizes : List Nat) (size depth : Nat) (l : List Nat) : List Nat :=
  setAll (setRange l 1 (sizes.headD 0) depth) (borderPositions sizes size) depth

/-- border stores of a 16-bit step (radix_sort.hpp:398-411): walk over the non-empty buckets
`(index, size)`; the value is `depth + 1` when the first key byte of the two neighbours agrees -/
def border16 : List (Nat × Nat) → Nat → List (Nat × Nat)
  | (i1, _) :: (i2, s2) :: rest, bkt =>
    (bkt, if i1 >>> 8 = i2 >>> 8 then 1 else 0) :: border16 ((i2, s2) :: rest) (bkt + s2)
  | _, _ => []

def stepLcp16 (sizes : List Nat) (depth : Nat) (l : List Nat) : List Nat :=
  let ne := (sizes.zipIdx.filter (fun p => p.1 ≠ 0)).map (fun p => (p.2, p.1))
  let l1 := setRange l 1 (sizes.headD 0) depth
  match ne with
  | [] => l1
  | (_, s1) :: _ => setPairs l1 (border16 ne s1) depth

end TlxVerif.C03
