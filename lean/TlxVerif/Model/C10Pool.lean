/-
C10 — tlx::ThreadPool as a labelled transition system.

Transliteration of tlx/thread_pool.cpp (worker loop, enqueue, loop_until_empty,
loop_until_terminate, terminate, destructor) at the granularity of the
deterministic scheduler (harness/detsched): one transition = one synchronisation
operation (mutex lock/unlock, condition wait / wake-up, notify, atomic load /
store / read-modify-write, fence, thread spawn / join) together with the
thread-local code that follows it up to the next synchronisation operation.
The program counter of a thread names its *pending* operation.

Threads: 0 = main (constructs the pool, starts the clients, performs its own
calls, joins the clients, destroys the pool), 1..n = workers, n+1.. = clients.
Jobs are instances `⟨id, code⟩`; `cfg.prog code` is the list of calls the job body
makes (enqueue / terminate / done() / idle()), optionally ended by a `throw`: the body
then ends with a `std::runtime_error`, which `ThreadPool::worker` catches (and logs) in
its `try { job(); } catch (std::exception&)`; the catch block contains no synchronisation
operation, so in both cases control continues at the fence behind the try/catch — the
throwing path is the same sequence of program points `wFence, wDoneInc, wBusyDec, wRelock,
wNotify`, entered with the note `job!id` instead of `job-id` and recorded in the ghost
list `thrown`.  Ids are given in push order.
The destruction of the job object ("destroy job by closing scope", after the try/catch and before
the fence) is a program point of its own: the calls of `cfg.dprog code` — what the destructor of the
closure of a job with that code does (enqueue a continuation, read `done()`/`idle()`) — are executed
by the worker after the body, still inside the busy section and without the mutex; the note `job~id`
and the ghost list `destroyed` mark its end.  Jobs still queued when `~ThreadPool` destroys the
queue are recorded in `dropped`.
`cfg.initYields`: scheduling points inside the `init_thread` callback a worker runs before
it first takes the mutex (`wInit`): a worker that is neither idle nor busy.

Ghost state (not in the C++): `started` (ids in the order they were popped for
execution) and `finished` (ids whose body has returned).
-/
import TlxVerif.Model.C10Sched
namespace TlxVerif.C10
open TlxVerif.Sched (StepOut)

/-- calls on the pool: `enq code`, `terminate()`, `loop_until_empty()`, `loop_until_terminate()` -/
inductive Act
  | enq (code : Nat) | term | lue | lut
  /-- `done()` / `idle()`: a single atomic load -/
  | obsDone | obsIdle
  /-- (job bodies only) `throw std::runtime_error(…)`: the rest of the body is not executed; the worker
      catches the exception, logs it and carries on behind the try/catch -/
  | throw
  deriving DecidableEq, Repr, Inhabited

structure Job where
  id : Nat
  code : Nat
  deriving DecidableEq, Repr, Inhabited

/-- pending operation inside a call -/
inductive CPc
  | lock        -- entry of a call: std::unique_lock<std::mutex> lock(mutex_)
                --   (for done() / idle() the atomic load, which is the whole call)
  | enqNotify   -- jobs_.emplace_back(job); cv_jobs_.notify_one()
  | tStore      -- terminate_ = true
  | tNotifyJ    -- cv_jobs_.notify_all()
  | tNotifyF    -- cv_finished_.notify_all()      (was notify_one: D6b)
  | loadTerm    -- predicate of loop_until_terminate: terminate_ && …
  | loadBusy    -- predicates: … && busy_ == 0
  | wait        -- cv_finished_.wait(lock): release the mutex, enter the wait set
  | waiting     -- in cv_finished_.wait: woken (or spuriously), re-acquire the mutex
  | fence       -- std::atomic_thread_fence(seq_cst)
  | unlock      -- ~unique_lock: the call returns
  deriving DecidableEq, Repr, Inhabited

inductive Pc
  | start | finished
  -- worker (thread_pool.cpp: ThreadPool::worker)
  | wInit (j : Nat)  -- inside init_thread_(p): `j` more yields of the callback to go
  | wLock          -- unique_lock lock(mutex_)
  | wLoadTerm1     -- if (!terminate_ && jobs_.empty())
  | wIdleInc       -- ++idle_
  | wLoadTerm2     -- predicate of cv_jobs_.wait: terminate_ || !jobs_.empty()
  | wWait          -- cv_jobs_.wait(lock)
  | wWaiting       -- woken, re-acquire
  | wIdleDec       -- --idle_
  | wLoadTerm3     -- if (terminate_) break
  | wBusyInc       -- ++busy_ ; job = jobs_.front(); jobs_.pop_front()
  | wUnlockRun     -- lock.unlock(); job()
  | wFence         -- atomic_thread_fence
  | wDoneInc       -- ++done_
  | wBusyDec       -- --busy_
  | wRelock        -- lock.lock()
  | wNotify        -- cv_finished_.notify_all()      (was notify_one: D6)
  | wExitUnlock    -- ~unique_lock after break
  -- main thread
  | mCtor (i : Nat)    -- threads_[i] = std::thread(&ThreadPool::worker, this, i)
  | mSpawn (i : Nat)   -- harness: start client i
  | mJoinC (i : Nat)   -- harness: join client i
  | mDLock | mDStore | mDNotify | mDUnlock     -- ~ThreadPool
  | mDJoin (i : Nat)   -- threads_[i].join()
  -- k-th call of the thread's current script (main calls / client calls / job body)
  | call (k : Nat) (c : CPc)
  deriving DecidableEq, Repr, Inhabited

inductive Role
  | main | worker | client (idx : Nat)
  deriving DecidableEq, Repr, Inhabited

structure Thread where
  role : Role
  pc : Pc
  /-- the job a worker has popped and is executing -/
  job : Option Job := none
  deriving DecidableEq, Repr, Inhabited

structure Cfg where
  nworkers : Nat
  /-- number of scheduling points (yields) inside the `init_thread` callback; 0 = none / no callback -/
  initYields : Nat := 0
  prog : Nat → List Act
  /-- what the destructor of the closure of a job with this code does (enqueue a continuation, read observers) -/
  dprog : Nat → List Act := fun _ => []
  clients : List (List Act)
  mainCalls : List Act

structure State where
  queue : List Job := []
  busy : Nat := 0
  idle : Nat := 0
  done : Nat := 0
  term : Bool := false
  owner : Option Nat := none
  wJ : List Nat := []
  wF : List Nat := []
  nextId : Nat := 0
  /-- threads 1..spawned have been created (a thread at `start` may run once it is created) -/
  spawned : Nat := 0
  thr : List Thread
  started : List Nat := []
  finished : List Nat := []
  /-- ghost: ids of the jobs whose body ended by throwing (they are in `finished` as well) -/
  thrown : List Nat := []
  /-- ghost: ids of the jobs whose closure was destroyed by the worker that ran them (the "destroy job by
      closing scope" point of `ThreadPool::worker`, after the body, before the fence / `++done_` / `--busy_`) -/
  destroyed : List Nat := []
  /-- ghost: ids of the jobs still queued when `~ThreadPool` destroyed the queue (never run) -/
  dropped : List Nat := []
  deriving Repr

def init (cfg : Cfg) : State :=
  { thr := [{ role := .main, pc := .start }]
        ++ (List.replicate cfg.nworkers { role := .worker, pc := .start })
        ++ ((List.range cfg.clients.length).map fun i => { role := .client i, pc := .start }) }

def nclients (cfg : Cfg) : Nat := cfg.clients.length
def workerTid (i : Nat) : Nat := i + 1
def clientTid (cfg : Cfg) (i : Nat) : Nat := cfg.nworkers + 1 + i

/-- the list of calls a thread has been given (main calls / client calls / job body) -/
def fullScript (cfg : Cfg) (th : Thread) : List Act :=
  match th.role with
  | .main => cfg.mainCalls
  | .client i => cfg.clients.getD i []
  | .worker => match th.job with
    | some j => cfg.prog j.code
    | none => []

/-- the calls of the body a thread really executes: everything before the first `throw` -/
def bodyScript (cfg : Cfg) (th : Thread) : List Act := (fullScript cfg th).takeWhile (· != .throw)

/-- the calls made by the destructor of the closure of the job a worker is executing -/
def dtorScript (cfg : Cfg) (th : Thread) : List Act :=
  match th.role, th.job with
  | .worker, some j => (cfg.dprog j.code).takeWhile (· != .throw)
  | _, _ => []

/-- everything a thread executes between two of its own program points: for a worker running a job the body
    `try { job(); } catch …` followed by the destruction of the job object ("closing scope") -/
def script (cfg : Cfg) (th : Thread) : List Act := bodyScript cfg th ++ dtorScript cfg th

/-- the body ends by throwing -/
def throws (cfg : Cfg) (th : Thread) : Bool := (bodyScript cfg th).length < (fullScript cfg th).length

/-- the job body ends right before call index `k'` of the script (the destructor's calls follow) -/
def bodyEnds (cfg : Cfg) (th : Thread) (k' : Nat) : Bool := th.role == .worker && k' == (bodyScript cfg th).length

def pcOf (s : State) (t : Nat) : Pc := (s.thr[t]?.map (·.pc)).getD .finished

def setPc (s : State) (t : Nat) (pc : Pc) : State :=
  { s with thr := s.thr.modify t fun th => { th with pc := pc } }

def setThr (s : State) (t : Nat) (th : Thread) : State :=
  { s with thr := s.thr.set t th }

def b2s (b : Bool) : String := if b then "1" else "0"
def ev (t : Nat) (e : String) : String := s!"{t}:{e}"

/-- notify_one on a wait set: index of the woken waiter (by raw draw) -/
def notifyIdx (ws : List Nat) (c : Nat) : Option Nat :=
  if ws.isEmpty then none else some ((c / 256) % ws.length)

/-- notify_one: the wait set afterwards -/
def notifyRest (ws : List Nat) (c : Nat) : List Nat :=
  if ws.isEmpty then ws else ws.eraseIdx ((c / 256) % ws.length)

/-- notify_one: event suffix naming the woken thread -/
def notifyWho (ws : List Nat) (c : Nat) : String :=
  if ws.isEmpty then "-" else toString (ws.getD ((c / 256) % ws.length) 0)

/-- the operation a thread performs is enabled without a spurious wake-up -/
def enabled (cfg : Cfg) (s : State) (t : Nat) : Bool :=
  match s.thr[t]? with
  | none => false
  | some th =>
    match th.pc with
    | .finished => false
    | .start => t ≤ s.spawned
    | .wLock | .wRelock | .mDLock => s.owner.isNone
    | .call k .lock =>
      match (script cfg th)[k]? with
      | some .obsDone | some .obsIdle => true      -- an atomic load
      | _ => s.owner.isNone
    | .wWaiting => s.owner.isNone && !s.wJ.contains t
    | .call _ .waiting => s.owner.isNone && !s.wF.contains t
    | .mJoinC i => pcOf s (clientTid cfg i) == .finished
    | .mDJoin i => pcOf s (workerTid i) == .finished
    | _ => true

def spurCand (s : State) (t : Nat) : Bool :=
  match s.thr[t]? with
  | none => false
  | some th =>
    match th.pc with
    | .wWaiting => s.owner.isNone && s.wJ.contains t
    | .call _ .waiting => s.owner.isNone && s.wF.contains t
    | _ => false

def unfinished (s : State) (t : Nat) : Bool :=
  match s.thr[t]? with
  | none => false
  | some th => t ≤ s.spawned && th.pc != .finished

/-! ### thread-local continuations (no synchronisation operation) -/

/-- main: after the clients were joined (or there are none) `~ThreadPool` begins (pc `mDLock`, note `dtor`) -/
def mainJoinPc (cfg : Cfg) : Pc := if nclients cfg = 0 then .mDLock else .mJoinC 0
def mainJoinEv (cfg : Cfg) (t : Nat) : List String := if nclients cfg = 0 then [ev t "dtor"] else []

/-- the calls the main thread makes itself -/
def mainScript (cfg : Cfg) : List Act := cfg.mainCalls.takeWhile (· != .throw)

def mainScriptPc (cfg : Cfg) : Pc := if (mainScript cfg).isEmpty then mainJoinPc cfg else .call 0 .lock
def mainScriptEv (cfg : Cfg) (t : Nat) : List String := if (mainScript cfg).isEmpty then mainJoinEv cfg t else []

/-- id of the job a worker is executing -/
def jobId (th : Thread) : Nat := (th.job.map (·.id)).getD 0

/-- the thread record after the last call of its script returned -/
def endOfScript (cfg : Cfg) (th : Thread) : Thread :=
  match th.role with
  | .main => { th with pc := mainJoinPc cfg }
  | .client _ => { th with pc := .finished }
  | .worker => { th with pc := .wFence }      -- job object destroyed (closing scope), then the fence

def endOfScriptEv (cfg : Cfg) (t : Nat) (th : Thread) : List String :=
  match th.role with
  | .main => mainJoinEv cfg t
  | .client _ => []
  | .worker => [ev t s!"job~{jobId th}"]      -- the closure has been destroyed

/-- ghost: the job object is destroyed at the end of the worker's script -/
def endOfScriptDes (s : State) (th : Thread) : List Nat :=
  match th.role with
  | .worker => s.destroyed ++ [jobId th]
  | _ => s.destroyed

/-- ghost: a job body that returns (or throws) before call `k'` is recorded as finished -/
def bodyEndFin (cfg : Cfg) (s : State) (th : Thread) (k' : Nat) : List Nat :=
  if bodyEnds cfg th k' then s.finished ++ [jobId th] else s.finished

/-- ghost: jobs whose body threw -/
def bodyEndThrown (cfg : Cfg) (s : State) (th : Thread) (k' : Nat) : List Nat :=
  if bodyEnds cfg th k' && throws cfg th then s.thrown ++ [jobId th] else s.thrown

def bodyEndEv (cfg : Cfg) (t : Nat) (th : Thread) (k' : Nat) : List String :=
  if bodyEnds cfg th k' then [ev t (if throws cfg th then s!"job!{jobId th}" else s!"job-{jobId th}")] else []

/-- what follows the return of call `k` of the thread's script -/
def afterCall (cfg : Cfg) (s : State) (t : Nat) (th : Thread) (k : Nat) : State :=
  if k + 1 < (script cfg th).length then
    { setThr s t { th with pc := .call (k + 1) .lock } with
        finished := bodyEndFin cfg s th (k + 1), thrown := bodyEndThrown cfg s th (k + 1) }
  else
    { setThr s t (endOfScript cfg th) with
        finished := bodyEndFin cfg s th (k + 1), thrown := bodyEndThrown cfg s th (k + 1),
        destroyed := endOfScriptDes s th }

def afterCallEv (cfg : Cfg) (t : Nat) (th : Thread) (k : Nat) : List String :=
  bodyEndEv cfg t th (k + 1) ++ (if k + 1 < (script cfg th).length then [] else endOfScriptEv cfg t th)

/-- beginning of a script (client start, job body start) -/
def beginScript (cfg : Cfg) (s : State) (t : Nat) (th : Thread) : State :=
  if (script cfg th).isEmpty then
    { setThr s t (endOfScript cfg th) with
        finished := bodyEndFin cfg s th 0, thrown := bodyEndThrown cfg s th 0, destroyed := endOfScriptDes s th }
  else
    { setThr s t { th with pc := .call 0 .lock } with
        finished := bodyEndFin cfg s th 0, thrown := bodyEndThrown cfg s th 0 }

def beginScriptEv (cfg : Cfg) (t : Nat) (th : Thread) : List String :=
  bodyEndEv cfg t th 0 ++ (if (script cfg th).isEmpty then endOfScriptEv cfg t th else [])

/-- state after the mutex was (re-)acquired inside loop_until_empty / loop_until_terminate:
    evaluation of the wait predicate up to its first atomic load -/
def predEntry (s : State) (a : Act) : CPc :=
  match a with
  | .lue => if s.queue.isEmpty then .loadBusy else .wait     -- jobs_.empty() && (busy_ == 0)
  | _ => .loadTerm                                          -- terminate_ && (busy_ == 0)

/-! ### the step function -/

def out (s : State) (evs : List String) : Option (StepOut State) := some { st := s, evs := evs }

/-- one transition of thread `t`; `c` = raw draw used by notify_one.  `none` when the
    pending operation is blocked (mutex taken, join target alive) or the thread has no
    pending operation.  A thread in a condition wait may step whenever the mutex is free:
    if it is still in the wait set this is a spurious wake-up. -/
def step (cfg : Cfg) (s : State) (t : Nat) (c : Nat) : Option (StepOut State) :=
  match s.thr[t]? with
  | none => none
  | some th =>
  match th.pc with
  | .finished => none
  | .start =>
    if t > s.spawned then none else
    match th.role with
    | .main => out (setThr s t { th with pc := .mCtor 0 }) [ev t "start"]
    | .worker =>     -- if (init_thread_) init_thread_(p);
      out (setThr s t { th with pc := if cfg.initYields = 0 then .wLock else .wInit cfg.initYields }) [ev t "start"]
    | .client _ => out (beginScript cfg s t th) (ev t "start" :: beginScriptEv cfg t th)
  -- ------------------------------------------------------------ main
  | .mCtor i =>
    let s1 := { s with spawned := workerTid i }
    if i + 1 < cfg.nworkers then out (setThr s1 t { th with pc := .mCtor (i + 1) }) [ev t s!"spawn({workerTid i})"]
    else if nclients cfg = 0 then
      out (setThr s1 t { th with pc := mainScriptPc cfg }) (ev t s!"spawn({workerTid i})" :: mainScriptEv cfg t)
    else out (setThr s1 t { th with pc := .mSpawn 0 }) [ev t s!"spawn({workerTid i})"]
  | .mSpawn i =>
    let s1 := { s with spawned := clientTid cfg i }
    if i + 1 < nclients cfg then out (setThr s1 t { th with pc := .mSpawn (i + 1) }) [ev t s!"spawn({clientTid cfg i})"]
    else out (setThr s1 t { th with pc := mainScriptPc cfg }) (ev t s!"spawn({clientTid cfg i})" :: mainScriptEv cfg t)
  | .mJoinC i =>
    if pcOf s (clientTid cfg i) == .finished then
      if i + 1 < nclients cfg then out (setThr s t { th with pc := .mJoinC (i + 1) }) [ev t s!"join({clientTid cfg i})"]
      else out (setThr s t { th with pc := .mDLock }) [ev t s!"join({clientTid cfg i})", ev t "dtor"]
    else none
  | .mDLock =>
    if s.owner.isNone then out { setThr s t { th with pc := .mDStore } with owner := some t } [ev t "lock(m)"] else none
  | .mDStore => out { setThr s t { th with pc := .mDNotify } with term := true } [ev t "st(term)=1"]
  | .mDNotify => out { setThr s t { th with pc := .mDUnlock } with wJ := [] } [ev t s!"nall(cvj)#{s.wJ.length}"]
  | .mDUnlock => out { setThr s t { th with pc := .mDJoin 0 } with owner := none } [ev t "unlock(m)"]
  | .mDJoin i =>
    if pcOf s (workerTid i) == .finished then
      if i + 1 < cfg.nworkers then out (setThr s t { th with pc := .mDJoin (i + 1) }) [ev t s!"join({workerTid i})"]
      else
        -- the members are destroyed: the closures of the jobs still in the queue go with it
        out { setThr s t { th with pc := .finished } with dropped := s.dropped ++ s.queue.map (·.id) }
            ([ev t s!"join({workerTid i})"] ++ s.queue.map (fun j => ev t s!"job~{j.id}") ++ [ev t "end"])
    else none
  -- ------------------------------------------------------------ worker
  | .wInit j => out (setThr s t { th with pc := if j ≤ 1 then .wLock else .wInit (j - 1) }) [ev t "yield"]
  | .wLock =>
    if s.owner.isNone then out { setThr s t { th with pc := .wLoadTerm1 } with owner := some t } [ev t "lock(m)"] else none
  | .wLoadTerm1 =>
    let pc := if !s.term && s.queue.isEmpty then Pc.wIdleInc else Pc.wLoadTerm3
    out (setThr s t { th with pc := pc }) [ev t s!"ld(term)={b2s s.term}"]
  | .wIdleInc => out { setThr s t { th with pc := .wLoadTerm2 } with idle := s.idle + 1 } [ev t s!"rmw(idle)={s.idle + 1}"]
  | .wLoadTerm2 =>
    let pc := if s.term || !s.queue.isEmpty then Pc.wIdleDec else Pc.wWait
    out (setThr s t { th with pc := pc }) [ev t s!"ld(term)={b2s s.term}"]
  | .wWait => out { setThr s t { th with pc := .wWaiting } with owner := none, wJ := s.wJ ++ [t] } [ev t "wait(cvj)"]
  | .wWaiting =>
    if s.owner.isNone then
      let sp := s.wJ.contains t
      some { st := { setThr s t { th with pc := .wLoadTerm2 } with owner := some t, wJ := s.wJ.erase t },
             evs := [ev t (if sp then "wake!(cvj)" else "wake(cvj)")], spurious := sp }
    else none
  | .wIdleDec => out { setThr s t { th with pc := .wLoadTerm3 } with idle := s.idle - 1 } [ev t s!"rmw(idle)={s.idle - 1}"]
  | .wLoadTerm3 =>
    let pc := if s.term then Pc.wExitUnlock else if !s.queue.isEmpty then Pc.wBusyInc else Pc.wLoadTerm1
    out (setThr s t { th with pc := pc }) [ev t s!"ld(term)={b2s s.term}"]
  | .wBusyInc =>
    match s.queue with
    | [] => none     -- unreachable: the branch is taken with the mutex held and the queue non-empty
    | j :: q =>
      out { setThr s t { th with pc := .wUnlockRun, job := some j } with
              busy := s.busy + 1, queue := q, started := s.started ++ [j.id] }
          [ev t s!"rmw(busy)={s.busy + 1}"]
  | .wUnlockRun =>
    out (beginScript cfg { s with owner := none } t th)
        (ev t "unlock(m)" :: ev t s!"job+{jobId th}" :: beginScriptEv cfg t th)
  | .wFence => out (setThr s t { th with pc := .wDoneInc, job := none }) [ev t "fence"]
  | .wDoneInc => out { setThr s t { th with pc := .wBusyDec } with done := s.done + 1 } [ev t s!"rmw(done)={s.done + 1}"]
  | .wBusyDec => out { setThr s t { th with pc := .wRelock } with busy := s.busy - 1 } [ev t s!"rmw(busy)={s.busy - 1}"]
  | .wRelock =>
    if s.owner.isNone then out { setThr s t { th with pc := .wNotify } with owner := some t } [ev t "lock(m)"] else none
  | .wNotify => out { setThr s t { th with pc := .wLoadTerm1 } with wF := [] } [ev t s!"nall(cvf)#{s.wF.length}"]
  | .wExitUnlock => out { setThr s t { th with pc := .finished } with owner := none } [ev t "unlock(m)"]
  -- ------------------------------------------------------------ calls
  | .call k cpc =>
    match (script cfg th)[k]? with
    | none => none
    | some a =>
    match cpc with
    | .lock =>
      match a with
      | .obsDone =>      -- size_t done() const { return done_; }
        out (afterCall cfg s t th k) ([ev t s!"ld(done)={s.done}", ev t s!"r={s.done}"] ++ afterCallEv cfg t th k)
      | .obsIdle =>      -- size_t idle() const { return idle_; }
        out (afterCall cfg s t th k) ([ev t s!"ld(idle)={s.idle}", ev t s!"r={s.idle}"] ++ afterCallEv cfg t th k)
      | .throw => none   -- unreachable: `script` stops before the first throw
      | .enq _ =>
        if s.owner.isNone then out (setThr { s with owner := some t } t { th with pc := .call k .enqNotify }) [ev t "lock(m)"]
        else none
      | .term =>
        if s.owner.isNone then out (setThr { s with owner := some t } t { th with pc := .call k .tStore }) [ev t "lock(m)"]
        else none
      | .lue | .lut =>
        if s.owner.isNone then out (setThr { s with owner := some t } t { th with pc := .call k (predEntry s a) }) [ev t "lock(m)"]
        else none
    | .enqNotify =>
      match a with
      | .enq code =>
        some { st := { setThr s t { th with pc := .call k .unlock } with
                         queue := s.queue ++ [⟨s.nextId, code⟩], nextId := s.nextId + 1, wJ := notifyRest s.wJ c },
               evs := [ev t s!"n1(cvj)>{notifyWho s.wJ c}"], drawIdx := notifyIdx s.wJ c, drawWidth := s.wJ.length }
      | _ => none
    | .tStore => out { setThr s t { th with pc := .call k .tNotifyJ } with term := true } [ev t "st(term)=1"]
    | .tNotifyJ => out { setThr s t { th with pc := .call k .tNotifyF } with wJ := [] } [ev t s!"nall(cvj)#{s.wJ.length}"]
    | .tNotifyF => out { setThr s t { th with pc := .call k .unlock } with wF := [] } [ev t s!"nall(cvf)#{s.wF.length}"]
    | .loadTerm =>
      let nxt : CPc := if s.term then .loadBusy else .wait
      out (setThr s t { th with pc := .call k nxt }) [ev t s!"ld(term)={b2s s.term}"]
    | .loadBusy =>
      let nxt : CPc := if s.busy = 0 then .fence else .wait
      out (setThr s t { th with pc := .call k nxt }) [ev t s!"ld(busy)={s.busy}"]
    | .wait => out { setThr s t { th with pc := .call k .waiting } with owner := none, wF := s.wF ++ [t] } [ev t "wait(cvf)"]
    | .waiting =>
      if s.owner.isNone then
        let sp := s.wF.contains t
        some { st := { setThr s t { th with pc := .call k (predEntry s a) } with owner := some t, wF := s.wF.erase t },
               evs := [ev t (if sp then "wake!(cvf)" else "wake(cvf)")], spurious := sp }
      else none
    | .fence => out (setThr s t { th with pc := .call k .unlock }) [ev t "fence"]
    | .unlock =>
      let note := match a with
        | .lue => [ev t "ret(w)"]
        | .lut => [ev t "ret(u)"]
        | _ => []
      out (afterCall cfg { s with owner := none } t th k) (ev t "unlock(m)" :: note ++ afterCallEv cfg t th k)

def lts (cfg : Cfg) : TlxVerif.Sched.LTS State where
  nthreads := fun s => s.thr.length
  unfinished := unfinished
  enabled := enabled cfg
  spurCand := spurCand
  step := step cfg

end TlxVerif.C10
