/-
C04 model, part 4: the sort-step protocol of pS5 as a labelled transition system
(tlx/sort/strings/parallel_sample_sort.hpp: `PS5SortStep`, `PS5BigSortStep`,
`PS5SmallsortJob`, `PS5Context::enqueue`).

Objects are the heap-allocated sort steps (index in `objs` = identity).  Work is a list
of *tasks*; a task is the list of member-level instructions a thread still has to execute
for the job it runs (a job that sits in the thread pool's queue is a task that has not
started yet: the number of workers only restricts which tasks may move, so every
execution of the real pool with any number of workers is an execution of this system).
One transition executes the first instruction of one task.  Every instruction names the
step object whose members it reads or writes (`subj`); executing it on an object that was
already deleted is the error `uaf` — the model does not block such a step, it records it.

Programs (instruction lists) follow the C++ statement order:
  sample()            acc; [loop]                       loop = `pwork_ = parts_` then one
  count(p)            acc; decPwork                            enqueue per part
  count_finished()    acc; [loop]                       (`startLoop` performs the store and
  distribute(p)       acc; decPwork                      puts the enqueue instructions in
  distribute_finished acc; incrH; <spawn loop>; …        front of the task)
  run() (small job)   acc; incrH; <spawn loop>; notify
  substep_notify_done `notify`: --substep_working_, at 0 continue with substep_all_done
  substep_all_done    acc (LCP pass); rpn (`if (pstep_) pstep_->substep_notify_done()`); del
`Cfg` selects the code as it was found (`orig`) or as it is after the `fix:` commits:
  * `postReleaseAccess`: distribute_finished() releases the anonymous handle and *then*
    touches `bkt_` (D24); fixed: the access comes first;
  * `loopReadsMember`: the job creation loops re-read `parts_` after every enqueue,
    in particular after the last one; fixed: the bound is a local copy.
Like `startLoop`, the two `substep_add()` instructions put what follows them in program
order in front of the task only when they execute (`incrH`: the spawn loop and the release
of the anonymous handle; `incrC`: the `ctx_.enqueue(this, …)` of the new sub-step).  The
sequence of atomic actions of a thread is exactly the C++ one; the representation merely
guarantees that a pending `notify`/`newChild` instruction has its increment behind it.
The spawn loop is a choice point: it may create any number of sub-steps of either kind
(this covers every input, every threshold tuning and every `has_idle()` outcome).
-/
namespace TlxVerif.C04.Proto

inductive Phase | count | dist
  deriving DecidableEq, Repr

inductive Kind | big | small
  deriving DecidableEq, Repr

structure Obj where
  parent : Option Nat     -- pstep_
  cnt : Nat               -- substep_working_
  pwork : Nat             -- pwork_
  parts : Nat             -- parts_
  alive : Bool            -- false after `delete this`
  post : Bool             -- ghost: substep_add() was called at least once
  deriving DecidableEq, Repr

inductive Instr
  | acc (id : Nat)                        -- read / write of plain members
  | startLoop (id : Nat) (ph : Phase)     -- `pwork_ = parts_;` + entering the enqueue loop
  | enq (id : Nat) (ph : Phase)           -- `ctx_.threads_.enqueue([this, p] { count(p) / distribute(p); })`
  | decPwork (id : Nat) (ph : Phase)      -- `if (--pwork_ == 0) count_finished() / distribute_finished()`
  | incrH (id : Nat) (big : Bool)         -- substep_add() for the anonymous handle
  | incrC (id : Nat) (k : Kind) (parts : Nat)   -- substep_add() for one more sub-step
  | loop (id : Nat)                       -- the bucket loop of distribute_finished / work sharing of a small job
  | newChild (id : Nat) (k : Kind) (parts : Nat)   -- `ctx_.enqueue(this, …)`: new sub-step with pstep_ = id
  | notify (id : Nat)                     -- substep_notify_done()
  | rpn (id : Nat)                        -- `if (pstep_ != nullptr) pstep_->substep_notify_done();`
  | del (id : Nat)                        -- `delete this`
  deriving DecidableEq, Repr

def Instr.subj : Instr → Nat
  | .acc id | .startLoop id _ | .enq id _ | .decPwork id _ | .incrH id _ | .incrC id _ _ | .loop id
  | .newChild id _ _ | .notify id | .rpn id | .del id => id

structure Cfg where
  postReleaseAccess : Bool
  loopReadsMember : Bool
  deriving DecidableEq, Repr

def Cfg.orig : Cfg := { postReleaseAccess := true, loopReadsMember := true }
def Cfg.fixed : Cfg := { postReleaseAccess := false, loopReadsMember := false }

inductive Err
  | uaf (id : Nat)          -- member of a deleted (or never created) step touched
  | underflow (id : Nat)    -- counter decremented at 0
  | badDelete (id : Nat)    -- `delete this` with substep_working_ != 0
  deriving DecidableEq, Repr

/-- visible counter events (the harness emits the same from the atomic shim) -/
inductive Event
  | init (id : Nat)
  | add (id : Nat) (v : Nat)       -- ++substep_working_ -> v
  | sub (id : Nat) (v : Nat)       -- --substep_working_ -> v
  | store (id : Nat) (v : Nat)     -- pwork_ = v
  | dec (id : Nat) (v : Nat)       -- --pwork_ -> v
  | destroy (id : Nat)
  deriving DecidableEq, Repr

structure State where
  objs : List Obj
  tasks : List (List Instr)
  owed : List (Nat × Nat)          -- (child, parent): the child has not yet notified its parent
  err : Option Err
  deriving Repr

/-- what a task does at a choice point -/
inductive Choice
  | none                                  -- instruction without a choice
  | exit                                  -- leave the spawn loop
  | spawn (k : Kind) (parts : Nat)        -- one more sub-step
  deriving DecidableEq, Repr

/-! ### programs -/

/-- the enqueue loop after `pwork_ = parts_` -/
def enqLoop (cfg : Cfg) (id : Nat) (ph : Phase) (n : Nat) : List Instr :=
  if cfg.loopReadsMember then
    .acc id :: (List.replicate n [Instr.enq id ph, Instr.acc id]).flatten   -- `p < parts_` before / after every enqueue
  else List.replicate n (.enq id ph)

/-- `sample()`: build the splitter tree, then create the count jobs -/
def sampleProg (id : Nat) : List Instr := [.acc id, .startLoop id .count]
/-- `count(p)` / `distribute(p)` -/
def partJob (id : Nat) (ph : Phase) : List Instr := [.acc id, .decPwork id ph]
/-- `count_finished()`: prefix sum, then create the distribute jobs -/
def countFinished (id : Nat) : List Instr := [.acc id, .startLoop id .dist]
/-- `distribute_finished()` -/
def distFinished (id : Nat) : List Instr := [.acc id, .incrH id true]
/-- … after `substep_add()`: the bucket loop, then the release of the handle -/
def afterHandle (cfg : Cfg) (id : Nat) (big : Bool) : List Instr :=
  if big then
    .loop id :: (if cfg.postReleaseAccess then [.notify id, .acc id] else [.acc id, .notify id])
  else [.loop id, .notify id]
/-- `PS5SmallsortJob::run()` -/
def smallProg (id : Nat) : List Instr := [.acc id, .incrH id false]
/-- what the part job that brings `pwork_` to zero continues with -/
def finishedBlk (ph : Phase) (id : Nat) : List Instr :=
  match ph with
  | .count => countFinished id
  | .dist => distFinished id
/-- `substep_all_done()` -/
def allDone (id : Nat) : List Instr := [.acc id, .rpn id, .del id]
/-- one more bucket / stack level handed out: `substep_add(); ctx_.enqueue(this, …)` -/
def spawnIter (id : Nat) (k : Kind) (parts : Nat) : List Instr :=
  [.acc id, .incrC id k parts, .loop id]

def firstProg (k : Kind) (id : Nat) : List Instr :=
  match k with
  | .big => sampleProg id
  | .small => smallProg id

/-! ### transitions -/

def aliveAt (objs : List Obj) (id : Nat) : Bool :=
  match objs[id]? with
  | some o => o.alive
  | none => false

def modObj (objs : List Obj) (id : Nat) (f : Obj → Obj) : List Obj :=
  match objs[id]? with
  | some o => objs.set id (f o)
  | none => objs

/-- the object created by `new PS5BigSortStep / PS5SmallsortJob (ctx, pstep = id, …)` -/
def childObj (id parts : Nat) : Obj :=
  { parent := some id, cnt := 0, pwork := 0, parts := (if parts = 0 then 1 else parts), alive := true, post := false }

/-- effect of executing the first instruction of a task -/
structure Eff where
  objs : List Obj
  blk : List Instr              -- replaces the executed instruction in its task
  nt : List (List Instr)        -- new tasks (enqueued jobs)
  owed : List (Nat × Nat)
  err : Option Err
  evs : List Event

def execHead (cfg : Cfg) (objs : List Obj) (owed : List (Nat × Nat)) (ch : Choice) (i : Instr) : Eff :=
  let ok : Eff := { objs := objs, blk := [], nt := [], owed := owed, err := none, evs := [] }
  if ¬ aliveAt objs i.subj then { ok with err := some (.uaf i.subj) } else
  match objs[i.subj]? with
  | none => { ok with err := some (.uaf i.subj) }
  | some o =>
  match i with
  | .acc _ => ok
  | .startLoop id ph =>
    { ok with objs := modObj objs id (fun o => { o with pwork := o.parts }),
              blk := enqLoop cfg id ph o.parts, evs := [.store id o.parts] }
  | .enq id ph => { ok with nt := [partJob id ph] }
  | .decPwork id ph =>
    if o.pwork = 0 then { ok with err := some (.underflow id) } else
    { ok with objs := modObj objs id (fun o => { o with pwork := o.pwork - 1 }),
              blk := if o.pwork - 1 = 0 then finishedBlk ph id else [],
              evs := [.dec id (o.pwork - 1)] }
  | .incrH id big =>
    { ok with objs := modObj objs id (fun o => { o with cnt := o.cnt + 1, post := true }),
              blk := afterHandle cfg id big, evs := [.add id (o.cnt + 1)] }
  | .incrC id k parts =>
    { ok with objs := modObj objs id (fun o => { o with cnt := o.cnt + 1 }),
              blk := [.newChild id k parts], evs := [.add id (o.cnt + 1)] }
  | .loop id =>
    match ch with
    | .spawn k parts => { ok with blk := spawnIter id k parts }
    | _ => ok
  | .newChild id k parts =>
    let c := objs.length
    { ok with objs := objs ++ [childObj id parts],
              nt := [firstProg k c], owed := owed ++ [(c, id)], evs := [.init c] }
  | .notify id =>
    if o.cnt = 0 then { ok with err := some (.underflow id) } else
    { ok with objs := modObj objs id (fun o => { o with cnt := o.cnt - 1 }),
              blk := if o.cnt - 1 = 0 then allDone id else [],
              evs := [.sub id (o.cnt - 1)] }
  | .rpn id =>
    match o.parent with
    | some p => { ok with blk := [.notify p], owed := owed.erase (id, p) }
    | none => ok
  | .del id =>
    if o.cnt ≠ 0 then { ok with err := some (.badDelete id) } else
    { ok with objs := modObj objs id (fun o => { o with alive := false }), evs := [.destroy id] }

/-- task `ti` executes its first instruction -/
def exec (cfg : Cfg) (s : State) (ti : Nat) (ch : Choice) : Option (State × List Event) :=
  if s.err.isSome then none else
  match s.tasks[ti]? with
  | some (i :: rest) =>
    let e := execHead cfg s.objs s.owed ch i
    some ({ objs := e.objs, tasks := s.tasks.take ti ++ (e.blk ++ rest) :: s.tasks.drop (ti + 1) ++ e.nt,
            owed := e.owed, err := e.err }, e.evs)
  | _ => none

/-- the step relation in zipper form (used by the proofs) -/
def Step (cfg : Cfg) (s s' : State) : Prop :=
  ∃ pre i rest post ch, s.tasks = pre ++ (i :: rest) :: post ∧ s.err = none ∧
    s' = (let e := execHead cfg s.objs s.owed ch i
          { objs := e.objs, tasks := pre ++ (e.blk ++ rest) :: post ++ e.nt, owed := e.owed, err := e.err })

/-- `ctx.enqueue(nullptr, strptr, depth)`: one root step of either kind -/
def init (k : Kind) (parts : Nat) : State :=
  { objs := [{ parent := none, cnt := 0, pwork := 0, parts := (if parts = 0 then 1 else parts), alive := true, post := false }],
    tasks := [firstProg k 0], owed := [], err := none }

inductive Reachable (cfg : Cfg) : State → Prop
  | init (k : Kind) (parts : Nat) : Reachable cfg (init k parts)
  | step {s s' : State} : Reachable cfg s → Step cfg s s' → Reachable cfg s'

/-- run a list of (task index, choice) labels -/
def run (cfg : Cfg) : State → List (Nat × Choice) → Option State
  | s, [] => some s
  | s, (ti, ch) :: ls =>
    match exec cfg s ti ch with
    | some (s', _) => run cfg s' ls
    | none => none

/-- the pool is quiescent: no queued job, no running job -/
def State.quiescent (s : State) : Prop := ∀ t ∈ s.tasks, t = []

end TlxVerif.C04.Proto
