/-
C12 — sequential model of tlx::CountingPtr / tlx::ReferenceCounter (counting_ptr.hpp),
following the C++ order of inc_reference / dec_reference and the early returns.

Handle variables hold `none` (no handle object), `some none` (a handle containing nullptr) or
`some (some id)`.  Objects are numbered in creation order; `rc` is ReferenceCounter's
`reference_count_`, `dead` counts how often the handle type's **Deleter was invoked** for the
object (`Deleter()(ptr_)` in `CountingPtr::dec_reference`; with the default deleter that is the
`delete`, with `CountingPtrNoDelete` nothing observable happens, a custom deleter does what it
likes — the model is the same for every deleter).  Every access to an
object that has already been destroyed, and every failing `assert`, is an error (`Except`): the
theorems in Props/C12 show that no error can arise and that the counts are exact.
-/
namespace TlxVerif.C12

structure Obj where
  rc : Nat
  dead : Nat
deriving DecidableEq, Repr

abbrev Ptr := Option Nat

structure St where
  h : List (Option Ptr)
  o : List Obj
deriving DecidableEq, Repr

def nHandles : Nat := 6

def St.init : St := ⟨List.replicate nHandles none, []⟩

/-- the pointer stored in handle variable `i` (`none` if the variable holds no handle) -/
def St.ptr? (s : St) (i : Nat) : Option Ptr := (s.h[i]?).join

def St.setH (s : St) (i : Nat) (v : Option Ptr) : St := { s with h := s.h.set i v }

/-- `CountingPtr::inc_reference(o)`: `if (o) o->inc_reference();` -/
def incRef (s : St) (p : Ptr) : Except String St :=
  match p with
  | none => pure s
  | some i =>
    match s.o[i]? with
    | none => throw "wild pointer"
    | some ob =>
      if ob.dead ≠ 0 then throw "use after free: inc_reference on a destroyed object"
      else pure { s with o := s.o.set i { ob with rc := ob.rc + 1 } }

/-- `CountingPtr::dec_reference()` for a handle whose `ptr_` is `p`:
    `if (ptr_ && ptr_->dec_reference()) Deleter()(ptr_);` where
    `ReferenceCounter::dec_reference` is `assert(rc > 0); return --rc == 0;` -/
def decRef (s : St) (p : Ptr) : Except String St :=
  match p with
  | none => pure s
  | some i =>
    match s.o[i]? with
    | none => throw "wild pointer"
    | some ob =>
      if ob.dead ≠ 0 then throw "use after free: dec_reference on a destroyed object"
      else if ob.rc = 0 then throw "assert(reference_count_ > 0) fails"
      else if ob.rc - 1 = 0 then
        -- `Deleter()(ptr_)`: the deleter is invoked (default deleter: delete, ~ReferenceCounter asserts the count is 0)
        pure { s with o := s.o.set i { rc := 0, dead := ob.dead + 1 } }
      else pure { s with o := s.o.set i { ob with rc := ob.rc - 1 } }

/-- `ptr_->unique()` / `ptr_->reference_count()` read the counter of a live object -/
def readRc (s : St) (i : Nat) : Except String Nat :=
  match s.o[i]? with
  | none => throw "wild pointer"
  | some ob => if ob.dead ≠ 0 then throw "use after free: reading the count of a destroyed object" else pure ob.rc

inductive Op where
  | make (h : Nat)            -- CountingPtr(new T)
  | null (h : Nat)            -- CountingPtr()
  | raw (h s : Nat)           -- CountingPtr(s.get())
  | copy (h s : Nat)          -- copy constructor (also the converting one)
  | move (h s : Nat)          -- move constructor (also the converting one)
  | assign (h s : Nat)        -- operator=(const CountingPtr&)
  | massign (h s : Nat)       -- operator=(CountingPtr&&)
  | swap (h s : Nat)
  | reset (h : Nat)
  | unify (h : Nat)
  | dtor (h : Nat)            -- ~CountingPtr
  | objassign (h s : Nat)     -- *h = *s : ReferenceCounter::operator= leaves the counts unchanged
deriving DecidableEq, Repr

/-- handle variables 4,5 have the base-class pointer type -/
def isB (h : Nat) : Bool := h ≥ 4

/-- preconditions of the protocol (the C++ would not compile / would construct over a live
    variable otherwise) -/
def Op.wf (s : St) : Op → Bool
  | .make h | .null h => h < nHandles && (s.ptr? h).isNone
  | .raw h x => h < nHandles && (s.ptr? h).isNone && (s.ptr? x).isSome && isB h == isB x
  | .copy h x | .move h x => h < nHandles && (s.ptr? h).isNone && (s.ptr? x).isSome && (isB h || !isB x)
  | .assign h x | .massign h x => (s.ptr? h).isSome && (s.ptr? x).isSome && (isB h || !isB x)
  | .swap h x => (s.ptr? h).isSome && (s.ptr? x).isSome && isB h == isB x
  | .reset h | .unify h | .dtor h => (s.ptr? h).isSome
  | .objassign h x => (s.ptr? h).join.isSome && (s.ptr? x).join.isSome

def step (s : St) : Op → Except String St
  | .make h => do
      -- new T: reference count 0; `explicit CountingPtr(Type* ptr) : ptr_(ptr) { inc_reference(ptr_); }`
      let id := s.o.length
      let s : St := { s with o := s.o ++ [⟨0, 0⟩] }
      incRef (s.setH h (some (some id))) (some id)
  | .null h => pure (s.setH h (some none))
  | .raw h x | .copy h x => do
      -- `: ptr_(other.ptr_) { inc_reference(ptr_); }`
      let p := (s.ptr? x).getD none
      incRef (s.setH h (some p)) p
  | .move h x =>
      -- `: ptr_(other.ptr_) { other.ptr_ = nullptr; }`
      let p := (s.ptr? x).getD none
      pure ((s.setH h (some p)).setH x (some none))
  | .assign h x => do
      let p := (s.ptr? h).getD none
      let q := (s.ptr? x).getD none
      if p = q then pure s                    -- `if (ptr_ == other.ptr_) return *this;`
      else
        let s ← incRef s q                    -- `inc_reference(other.ptr_);`
        let s ← decRef s p                    -- `dec_reference();`
        pure (s.setH h (some q))              -- `ptr_ = other.ptr_;`
  | .massign h x => do
      let p := (s.ptr? h).getD none
      let q := (s.ptr? x).getD none
      if p = q then pure s                    -- `if (ptr_ == other.ptr_) return *this;`
      else
        let s ← decRef s p                    -- `dec_reference();`
        pure ((s.setH h (some q)).setH x (some none))   -- `ptr_ = other.ptr_; other.ptr_ = nullptr;`
  | .swap h x =>
      let p := (s.ptr? h).getD none
      let q := (s.ptr? x).getD none
      pure ((s.setH h (some q)).setH x (some p))
  | .reset h => do
      let p := (s.ptr? h).getD none
      let s ← decRef s p
      pure (s.setH h (some none))
  | .unify h => do
      -- `if (ptr_ && !ptr_->unique()) operator=(CountingPtr(new Type(*ptr_)));`
      match (s.ptr? h).getD none with
      | none => pure s
      | some i =>
        let rc ← readRc s i
        if rc = 1 then pure s
        else
          let id := s.o.length
          let s : St := { s with o := s.o ++ [⟨0, 0⟩] }    -- copy of the object: count 0
          let s ← incRef s (some id)                        -- the temporary handle
          -- move-assignment from the temporary: pointers differ (fresh object)
          let s ← decRef s (some i)
          pure (s.setH h (some (some id)))                  -- temporary now holds nullptr: its destructor does nothing
  | .dtor h => do
      let p := (s.ptr? h).getD none
      let s ← decRef s p
      pure (s.setH h none)
  | .objassign _ _ => pure s    -- `ReferenceCounter& operator=(const ReferenceCounter&) { return *this; }`

/-- the objects whose deleter was invoked between state `s` and state `s'` (one operation):
    the event that the harness observes per release path -/
def deleterCalls (s s' : St) : List Nat :=
  (List.range s'.o.length).filter fun i =>
    ((s.o[i]?).map (·.dead)).getD 0 < ((s'.o[i]?).map (·.dead)).getD 0

/-- number of handle variables pointing to object `i` -/
def St.handlesTo (s : St) (i : Nat) : Nat := s.h.count (some (some i))

def run (s : St) : List Op → Except String St
  | [] => pure s
  | op :: ops => do
      if !op.wf s then throw "bad-op"
      let s ← step s op
      run s ops

end TlxVerif.C12
