/-
Model of `tlx::DAryHeap<KeyType, Arity, Compare>` (tlx/container/d_ary_heap.hpp).

`heap_` is a `Vector Nat n` inside the loops (index proofs are discharged where the
function is defined, from the loop guards of the C++ code: the model cannot index out of
bounds) and an `Array Nat` at the interface.  `lt` is `cmp_` (for the harness:
the external priority table), `d` is `Arity` (`static_assert(Arity)` = `0 < d`).

Every loop is the C++ loop: `sift_up`/`sift_down` keep the moved value aside and shift
parents/children into the hole, `heapify` is the bottom-up loop with its own inlined
`do … while (cur <= last_internal)` sift.
-/
namespace TlxVerif.C13

/-- `parent(k) = (k - 1) / arity` (only used for `k > 0`) -/
@[reducible] def parent (d k : Nat) : Nat := (k - 1) / d
/-- `left(k) = arity * k + 1` -/
@[reducible] def left (d k : Nat) : Nat := d * k + 1

theorem parent_lt {d k : Nat} (hk : 0 < k) : parent d k < k := by
  have : (k - 1) / d ≤ k - 1 := Nat.div_le_self _ _
  unfold parent; omega

/-- the loop of `sift_up`: hole at `k`, `v` = the value kept aside.
```
while (k > 0 && !cmp_(heap_[p], value)) { heap_[k] = heap_[p]; k = p; p = parent(k); }
heap_[k] = value;
``` -/
def siftUpFrom (lt : Nat → Nat → Bool) (d : Nat) (v : Nat) {n : Nat} (a : Vector Nat n)
    (k : Nat) (hk : k < n) : Vector Nat n :=
  if h0 : k = 0 then a.set k v
  else
    have hp : parent d k < n := Nat.lt_trans (parent_lt (Nat.pos_of_ne_zero h0)) hk
    if lt a[parent d k] v then a.set k v
    else siftUpFrom lt d v (a.set k a[parent d k]) (parent d k) hp
termination_by k
decreasing_by exact parent_lt (Nat.pos_of_ne_zero h0)

/-- `sift_up(k)` -/
def siftUp (lt : Nat → Nat → Bool) (d : Nat) {n : Nat} (a : Vector Nat n) (k : Nat) (hk : k < n) :
    Vector Nat n :=
  siftUpFrom lt d a[k] a k hk

/-- the "min child" scan: `c` = best so far, `l` = last index looked at;
`while (++l < right) if (cmp_(heap_[l], heap_[c])) c = l;` -/
def minChildFrom (lt : Nat → Nat → Bool) {n : Nat} (a : Vector Nat n) (lo right : Nat)
    (hr : right ≤ n) (l : Nat) (c : { c : Nat // lo ≤ c ∧ c < n }) (hl : lo ≤ l) :
    { c : Nat // lo ≤ c ∧ c < n } :=
  if h : l + 1 < right then
    have hl1 : l + 1 < n := Nat.lt_of_lt_of_le h hr
    minChildFrom lt a lo right hr (l + 1)
      (if lt a[l + 1] (a[c.1]'(c.2.2)) then ⟨l + 1, by omega, hl1⟩ else c) (by omega)
  else c
termination_by right - l

/-- the child of `k` with minimum priority (first one among equals), for `left(k) < size`:
`c = l; right = min(size, c + arity); while (++l < right) …` -/
def minChild (lt : Nat → Nat → Bool) (d : Nat) {n : Nat} (a : Vector Nat n) (k : Nat)
    (hl : left d k < n) : { c : Nat // left d k ≤ c ∧ c < n } :=
  minChildFrom lt a (left d k) (min n (left d k + d)) (Nat.min_le_left _ _) (left d k)
    ⟨left d k, Nat.le_refl _, hl⟩ (Nat.le_refl _)

theorem left_gt {d k : Nat} (hd : 0 < d) : k < left d k := by
  have : 1 * k ≤ d * k := Nat.mul_le_mul_right k hd
  unfold left; omega

/-- the loop of `sift_down`: hole at `k`, `v` kept aside. -/
def siftDownFrom (lt : Nat → Nat → Bool) (d : Nat) (hd : 0 < d) (v : Nat) {n : Nat}
    (a : Vector Nat n) (k : Nat) (hk : k < n) : Vector Nat n :=
  if hl : left d k < n then
    let c := minChild lt d a k hl
    if lt (a[c.1]'(c.2.2)) v then
      siftDownFrom lt d hd v (a.set k (a[c.1]'(c.2.2))) c.1 c.2.2
    else a.set k v
  else a.set k v
termination_by n - k
decreasing_by
  have := (minChild lt d a k hl).2.1
  have := (minChild lt d a k hl).2.2
  have := @left_gt d k hd
  omega

/-- `sift_down(k)` -/
def siftDown (lt : Nat → Nat → Bool) (d : Nat) (hd : 0 < d) {n : Nat} (a : Vector Nat n)
    (k : Nat) (hk : k < n) : Vector Nat n :=
  siftDownFrom lt d hd a[k] a k hk

theorem left_le_of_le_last {d n cur : Nat} (h2 : 2 ≤ n) (h : cur ≤ (n - 2) / d) : left d cur < n := by
  have h1 : d * cur ≤ d * ((n - 2) / d) := Nat.mul_le_mul_left d h
  have h3 : d * ((n - 2) / d) ≤ n - 2 := Nat.mul_div_le (n - 2) d
  unfold left; omega

/-- the inlined sift of `heapify` (`do { … } while (cur <= last_internal)`); the scan of the
children `for (j = l + 1; j - l < arity && j < size; ++j)` is the same scan as in `sift_down`
(`j < min(size, l + arity)`). -/
def heapifyDown (lt : Nat → Nat → Bool) (d : Nat) (hd : 0 < d) (v : Nat) {n : Nat} (h2 : 2 ≤ n)
    (a : Vector Nat n) (cur : Nat) (hcur : cur ≤ (n - 2) / d) : Vector Nat n :=
  have hl : left d cur < n := left_le_of_le_last h2 hcur
  have hc : cur < n := Nat.lt_trans (left_gt hd) hl
  let m := minChild lt d a cur hl
  if lt (a[m.1]'(m.2.2)) v then
    let a' := a.set cur (a[m.1]'(m.2.2))
    if hm : m.1 ≤ (n - 2) / d then heapifyDown lt d hd v h2 a' m.1 hm
    else a'.set m.1 v m.2.2
  else a.set cur v
termination_by n - cur
decreasing_by
  have := (minChild lt d a cur hl).2.1
  have := (minChild lt d a cur hl).2.2
  have := @left_gt d cur hd
  omega

/-- the outer loop of `heapify`: `for (i = last_internal + 1; i != 0; --i)` -/
def heapifyLoop (lt : Nat → Nat → Bool) (d : Nat) (hd : 0 < d) {n : Nat} (h2 : 2 ≤ n)
    (a : Vector Nat n) (i : Nat) (hi : i ≤ (n - 2) / d + 1) : Vector Nat n :=
  match i, hi with
  | 0, _ => a
  | i + 1, hi =>
    have hcur : i ≤ (n - 2) / d := Nat.le_of_succ_le_succ hi
    have hl : left d i < n := left_le_of_le_last h2 hcur
    have hc : i < n := Nat.lt_trans (left_gt hd) hl
    heapifyLoop lt d hd h2 (heapifyDown lt d hd a[i] h2 a i hcur) i (Nat.le_succ_of_le hcur)

/-- `heapify()` -/
def heapify (lt : Nat → Nat → Bool) (d : Nat) (hd : 0 < d) {n : Nat} (a : Vector Nat n) : Vector Nat n :=
  if h2 : 2 ≤ n then heapifyLoop lt d hd h2 a ((n - 2) / d + 1) (Nat.le_refl _) else a

/-! ### the public interface on `Array Nat` (`heap_`) -/

/-- `push(key)`: `heap_.push_back(key); sift_up(size - 1)` -/
def push (lt : Nat → Nat → Bool) (d : Nat) (h : Array Nat) (key : Nat) : Array Nat :=
  (siftUp lt d (n := h.size + 1) ⟨h.push key, by simp⟩ h.size (Nat.lt_succ_self _)).toArray

/-- `top()` (precondition `!empty()`) -/
def top? (h : Array Nat) : Option Nat := h[0]?

/-- `pop()` (precondition `!empty()`): `swap(heap_[0], heap_.back()); pop_back(); if (!empty()) sift_down(0)` -/
def pop (lt : Nat → Nat → Bool) (d : Nat) (hd : 0 < d) (h : Array Nat) : Option (Array Nat) :=
  if hne : 0 < h.size then
    let sw := (h.swap 0 (h.size - 1) hne (by omega)).pop
    if hs : 0 < sw.size then
      some (siftDown lt d hd (n := sw.size) ⟨sw, rfl⟩ 0 hs).toArray
    else some sw
  else none

/-- `build_heap(keys)` (all three overloads: the old contents are discarded, then `heapify`) -/
def build (lt : Nat → Nat → Bool) (d : Nat) (hd : 0 < d) (keys : Array Nat) : Array Nat :=
  (heapify lt d hd (n := keys.size) ⟨keys, rfl⟩).toArray

/-- `update_all()` -/
def updateAll (lt : Nat → Nat → Bool) (d : Nat) (hd : 0 < d) (h : Array Nat) : Array Nat :=
  build lt d hd h

/-- `sanity_check()`: the BFS visits every slot `s` and compares it with each of its children;
as a function of the array this is "no child is strictly less than its parent". -/
def sanity (lt : Nat → Nat → Bool) (d : Nat) (h : Array Nat) : Bool :=
  (List.range h.size).all fun i =>
    i == 0 || !(lt (h[i]?.getD 0) (h[parent d i]?.getD 0))

end TlxVerif.C13
