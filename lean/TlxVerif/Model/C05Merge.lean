/-
Model of tlx/algorithm/multiway_merge.hpp and merge_advance.hpp.

An input sequence is `Seq`: the remaining real elements `[first, second)` as a
list, and what is stored at `*second` (`guard`: the sentinel of the
`*_sentinels` entry points, `none` otherwise).  All functions live in `Option`:
`none` = the C++ would read outside a sequence (dereference at/after the end
without a sentinel, `std::copy` beyond the end) or trip an `assert`.
The output is the list of elements written to `target` in order; the returned
iterator is `target + out.length`.

Transliterated: `merge_advance` (the `movc` variant that is selected),
`guarded_iterator` / `unguarded_iterator` comparisons, the 3- and 4-way goto
machines (interpreting the tables generated from the source), `prepare_unguarded`,
`multiway_merge_3_combined`, `multiway_merge_4_combined`, `multiway_merge_bubble`,
the guarded / unguarded / combined / sentinel loser tree merges (on top of the
C09 loser tree model), and the `multiway_merge_base` switch.
-/
import TlxVerif.Model.C09LoserTree
import TlxVerif.Model.C05Tables
namespace TlxVerif.C05
open TlxVerif.C09 (Tree Variant)

variable {α : Type}

structure Seq (α : Type) where
  xs : List α
  guard : Option α := none
  deriving Repr

/-! ### merge_advance (k = 2) -/

/-- the `while (begin1 != end1 && begin2 != end2 && max_size > 0)` loop of `merge_advance_movc`;
returns (rest1, rest2, remaining max_size, output) -/
def mergeLoop (lt : α → α → Bool) : Nat → List α → List α → List α × List α × Nat × List α
  | n + 1, x :: xs, y :: ys =>
    if lt y x then
      let (a, b, m, o) := mergeLoop lt n (x :: xs) ys
      (a, b, m, y :: o)
    else
      let (a, b, m, o) := mergeLoop lt n xs (y :: ys)
      (a, b, m, x :: o)
  | n, xs, ys => (xs, ys, n, [])

/-- `std::copy(begin, begin + n, target); begin += n` -/
def copyN (xs : List α) (n : Nat) : Option (List α × List α) :=
  if n ≤ xs.length then some (xs.drop n, xs.take n) else none

/-- `merge_advance(begin1, end1, begin2, end2, target, max_size, comp)`; returns (rest1, rest2, output) -/
def mergeAdvance (lt : α → α → Bool) (xs ys : List α) (maxSize : Nat) : Option (List α × List α × List α) :=
  let (a, b, m, o) := mergeLoop lt maxSize xs ys
  if !a.isEmpty then do
    let (a', o') ← copyN a m
    pure (a', b, o ++ o')
  else do
    let (b', o') ← copyN b m
    pure (a, b', o ++ o')

/-! ### iterators -/

/-- `*it` of an `unguarded_iterator` (reads the sentinel when the real elements are used up) -/
def headU (s : Seq α) : Option α :=
  match s.xs with
  | x :: _ => some x
  | [] => s.guard

/-- `bi1 OP bi2` for two iterators of the same kind -/
def itCmp (guarded : Bool) (lt : α → α → Bool) (op : Op) (s1 s2 : Seq α) : Option Bool :=
  if guarded then
    match op, s1.xs, s2.xs with
    -- operator<  : if (bi1 at end) return bi2 at end; if (bi2 at end) return true; return comp(*bi1, *bi2)
    | .lt, [], [] => some true
    | .lt, [], _ :: _ => some false
    | .lt, _ :: _, [] => some true
    | .lt, a :: _, b :: _ => some (lt a b)
    -- operator<= : if (bi2 at end) return bi1 not at end; if (bi1 at end) return false; return !comp(*bi2, *bi1)
    | .le, [], [] => some false
    | .le, _ :: _, [] => some true
    | .le, [], _ :: _ => some false
    | .le, a :: _, b :: _ => some (!lt b a)
  else do
    let a ← headU s1
    let b ← headU s2
    match op with
    | .lt => pure (lt a b)
    | .le => pure (!lt b a)

/-! ### the 3- and 4-way machines -/

def opOf (ops : List Op) : OpRef → Option Op
  | .opParam i => ops[i]?
  | .opLit o => some o

/-- evaluates the `if … goto` chain of a macro body whose parameters are bound to `args`;
result = the label jumped to (as the list of sequence numbers) -/
def evalBody (guarded : Bool) (lt : α → α → Bool) (seqs : List (Seq α)) (args : List Nat) (ops : List Op) :
    List Test → List Nat → Option (List Nat)
  | [], dflt => dflt.mapM (args[·]?)
  | t :: ts, dflt => do
    let l ← args[t.lhs]?
    let r ← args[t.rhs]?
    let sl ← seqs[l]?
    let sr ← seqs[r]?
    let o ← opOf ops t.op
    if ← itCmp guarded lt o sl sr then t.target.mapM (args[·]?)
    else evalBody guarded lt seqs args ops ts dflt

def evalTree (guarded : Bool) (lt : α → α → Bool) (M : Machine) (seqs : List (Seq α)) : DTree → Option (List Nat)
  | .goto p => some p
  | .decision args => evalBody guarded lt seqs args [] M.decision.tests M.decision.dflt
  | .ite l o r t e => do
    let sl ← seqs[l]?
    let sr ← seqs[r]?
    if ← itCmp guarded lt o sl sr then evalTree guarded lt M seqs t else evalTree guarded lt M seqs e

/-- `size` iterations of "label: emit, advance, dispatch" starting at label `st` -/
def machineLoop (guarded : Bool) (lt : α → α → Bool) (M : Machine) :
    Nat → List Nat → List (Seq α) → Option (List (Seq α) × List α)
  | 0, _, seqs => some (seqs, [])
  | size + 1, st, seqs => do
    let row ← M.rows.find? (fun r => r.perm == st)          -- an undefined label does not compile
    let a ← st[0]?
    let s ← seqs[a]?
    match s.xs with
    | [] => none               -- `*target = *seq_a` at the end of the sequence
    | x :: rest =>
      let seqs' := seqs.set a { s with xs := rest }
      if size = 0 then some (seqs', [x])                  -- if (size == 0) goto finish;
      else do
        let st' ← evalBody guarded lt seqs' st row.ops M.body.tests M.body.dflt
        let (fin, out) ← machineLoop guarded lt M size st' seqs'
        pure (fin, x :: out)

/-- `multiway_merge_3_variant<Iterator>` / `multiway_merge_4_variant<Iterator>` -/
def machineMerge (guarded : Bool) (lt : α → α → Bool) (M : Machine) (seqs : List (Seq α)) (size : Nat) :
    Option (List (Seq α) × List α) :=
  if seqs.length ≠ M.n || !M.emitOK || !M.finishOK then none
  else if size = 0 then some (seqs, [])
  else do
    let st ← evalTree guarded lt M seqs M.entry
    machineLoop guarded lt M size st seqs

/-! ### prepare_unguarded -/

/-- `std::lower_bound(first, second, v, comp) - first` on a range partitioned by `comp(·, v)` -/
def lowerBound (lt : α → α → Bool) (xs : List α) (v : α) : Nat := (xs.takeWhile (fun x => lt x v)).length
/-- `std::upper_bound(first, second, v, comp) - first` -/
def upperBound (lt : α → α → Bool) (xs : List α) (v : α) : Nat := (xs.takeWhile (fun x => !lt v x)).length

/-- first loop of `prepare_unguarded`: minimum of the last elements; `inl s` = empty sequence `s` found -/
def minOfLast (lt : α → α → Bool) : List (Seq α) → Nat → α → Nat → Sum Nat (α × Nat)
  | [], _, mn, ms => .inr (mn, ms)
  | s :: rest, i, mn, ms =>
    match s.xs.getLast? with
    | none => .inl i
    | some v => if lt v mn then minOfLast lt rest (i + 1) v i else minOfLast lt rest (i + 1) mn ms

/-- `prepare_unguarded<Stable>`: `(overhang, min_sequence)`, `overhang = none` ≙ `-1` -/
def prepareUnguarded (stable : Bool) (lt : α → α → Bool) (seqs : List (Seq α)) : Option (Option Nat × Nat) :=
  match seqs with
  | [] => none                      -- \pre (seqs_end - seqs_begin > 0)
  | s0 :: rest =>
    match s0.xs.getLast? with
    | none => some (none, 0)
    | some v0 =>
      match minOfLast lt rest 1 v0 0 with
      | .inl s => some (none, s)
      | .inr (mn, ms) =>
        let overhang := (seqs.zipIdx.map fun (s, i) =>
          let split := if i ≤ ms && stable then upperBound lt s.xs mn else lowerBound lt s.xs mn
          s.xs.length - split).sum
        some (some overhang, ms)

def totalSize (seqs : List (Seq α)) : Nat := (seqs.map (·.xs.length)).sum

/-! ### 3- and 4-way combined -/

/-- `switch (min_seq)` of `multiway_merge_3_combined`: `merge_advance` on the two other sequences -/
def mergeOthers3 (lt : α → α → Bool) (seqs : List (Seq α)) (minSeq overhang : Nat) :
    Option (List (Seq α) × List α) := do
  let (i, j) ← match minSeq with
    | 0 => some (1, 2)
    | 1 => some (0, 2)
    | 2 => some (0, 1)
    | _ => none
  let si ← seqs[i]?
  let sj ← seqs[j]?
  let (a, b, o) ← mergeAdvance lt si.xs sj.xs overhang
  pure ((seqs.set i { si with xs := a }).set j { sj with xs := b }, o)

def multiwayMerge3Combined (lt : α → α → Bool) (M3 : Machine) (seqs : List (Seq α)) (size : Nat) :
    Option (List (Seq α) × List α) := do
  if seqs.length ≠ 3 then none
  let (ov, minSeq) ← prepareUnguarded true lt seqs
  let total := totalSize seqs
  let (seqs1, out1, overhang) ←
    match ov with
    | some o => do
      let ug := min size (total - o)
      let (s1, o1) ← machineMerge false lt M3 seqs ug
      pure (s1, o1, size - ug)
    | none => pure (seqs, [], size)
  let (fin, o2) ← mergeOthers3 lt seqs1 minSeq overhang
  pure (fin, out1 ++ o2)

/-- `one_missing`: erase `min_seq`, guarded 3-way merge, insert it back, copy the iterators back -/
def mergeOneMissing (lt : α → α → Bool) (M3 : Machine) (seqs : List (Seq α)) (minSeq overhang : Nat) :
    Option (List (Seq α) × List α) := do
  let sm ← seqs[minSeq]?
  let oneMissing := seqs.eraseIdx minSeq
  let (om, o) ← machineMerge true lt M3 oneMissing overhang
  pure ((om.take minSeq) ++ sm :: (om.drop minSeq), o)

def multiwayMerge4Combined (lt : α → α → Bool) (M3 M4 : Machine) (seqs : List (Seq α)) (size : Nat) :
    Option (List (Seq α) × List α) := do
  if seqs.length ≠ 4 then none
  let (ov, minSeq) ← prepareUnguarded true lt seqs
  let total := totalSize seqs
  let (seqs1, out1, overhang) ←
    match ov with
    | some o => do
      let ug := min size (total - o)
      let (s1, o1) ← machineMerge false lt M4 seqs ug
      pure (s1, o1, size - ug)
    | none => pure (seqs, [], size)
  let (fin, o2) ← mergeOneMissing lt M3 seqs1 minSeq overhang
  pure (fin, out1 ++ o2)

/-! ### bubble -/

/-- one inner pass `for (pi = nrp-1; pi > k; --pi) if (less(pl[pi], pl[pi-1])) swap` of the initial
bubble sort, on the list of (element, source) from index `k` on -/
def bubblePass (less : (α × Nat) → (α × Nat) → Bool) : List (α × Nat) → List (α × Nat)
  | [] => []
  | [x] => [x]
  | x :: y :: rest =>
    match bubblePass less (y :: rest) with
    | [] => [x]
    | m :: rest' => if less m x then m :: x :: rest' else x :: m :: rest'

/-- `for (k = 0; k < nrp-1; ++k) <pass from the back down to k>` -/
def bubbleSort (less : (α × Nat) → (α × Nat) → Bool) : Nat → List (α × Nat) → List (α × Nat)
  | 0, l => l
  | n + 1, l =>
    match bubblePass less l with
    | [] => []
    | m :: rest => m :: bubbleSort less n rest

/-- "sink down": `j = 1; while (j < nrp && less(pl[j], pl[j-1])) { swap; ++j }` -/
def sinkDown (less : (α × Nat) → (α × Nat) → Bool) : List (α × Nat) → List (α × Nat)
  | x :: y :: rest => if less y x then y :: sinkDown less (x :: rest) else x :: y :: rest
  | l => l

/-- the order of the queue entries (element, source): `comp(pl[i], pl[j]) || (!comp(pl[j], pl[i]) &&
source[i] < source[j])` for the stable variant, `comp(pl[i], pl[j])` otherwise -/
def lessQ (stable : Bool) (lt : α → α → Bool) (a b : α × Nat) : Bool :=
  if stable then lt a.1 b.1 || (!lt b.1 a.1 && decide (a.2 < b.2)) else lt a.1 b.1

/-- the loop condition `nrp == 1 || cond`: `cond` is `comp(pl[0], pl[1])` when `strict`, else
`!comp(pl[1], pl[0])` -/
def goCond (lt : α → α → Bool) (strict : Bool) (x : α) : List (α × Nat) → Bool
  | [] => true
  | (y, _) :: _ => if strict then lt x y else !lt y x

/-- stable: `if (source[0] < source[1])` chooses between `<=` and `<`; with `nrp == 1` the
(uninitialised or stale) `source[1]` is read but both branches behave identically -/
def strictFlag (stable : Bool) : List (α × Nat) → Bool
  | (_, s0) :: (_, s1) :: _ => stable && !decide (s0 < s1)
  | _ => false

/-- the inner `while ((nrp == 1 || cond) && size > 0)` loop: emits from `source[0]`; `strict` selects
`comp(pl[0], pl[1])` (true) or `!comp(pl[1], pl[0])` (false).
Returns (queue, seqs, remaining size, output). -/
def bubbleInner (lt : α → α → Bool) (strict : Bool) :
    Nat → List (α × Nat) → List (Seq α) → Option (List (α × Nat) × List (Seq α) × Nat × List α)
  | 0, q, seqs => some (q, seqs, 0, [])
  | size + 1, q, seqs =>
    match q with
    | [] => none
    | (x, src) :: rest =>
      if !goCond lt strict x rest then some (q, seqs, size + 1, []) else do
        let s ← seqs[src]?
        match s.xs with
        | [] => none
        | _ :: xs' =>
          let seqs' := seqs.set src { s with xs := xs' }
          match xs' with
          | [] => some (rest, seqs', size, [x])            -- sequence exhausted: shift left, --nrp, break
          | nx :: _ => do
            let (q', s', n', o) ← bubbleInner lt strict size ((nx, src) :: rest) seqs'
            pure (q', s', n', x :: o)

/-- the outer `while (nrp > 0 && size > 0)` loop; `fuel` bounds the number of iterations -/
def bubbleOuter (stable : Bool) (lt : α → α → Bool) :
    Nat → Nat → List (α × Nat) → List (Seq α) → Option (List (Seq α) × List α)
  | 0, _, _, _ => none
  | fuel + 1, size, q, seqs =>
    if q.isEmpty || size = 0 then some (seqs, []) else do
      let strict := strictFlag stable q
      let (q1, seqs1, size1, o1) ← bubbleInner lt strict size q seqs
      let q2 := sinkDown (lessQ stable lt) q1
      let (fin, o2) ← bubbleOuter stable lt fuel size1 q2 seqs1
      pure (fin, o1 ++ o2)

/-- `multiway_merge_bubble<Stable>` -/
def multiwayMergeBubble (stable : Bool) (lt : α → α → Bool) (seqs : List (Seq α)) (size : Nat) :
    Option (List (Seq α) × List α) :=
  let q0 := seqs.zipIdx.filterMap fun (s, i) => s.xs.head?.map (·, i)
  let q := bubbleSort (lessQ stable lt) (q0.length - 1) q0
  bubbleOuter stable lt (2 * size + 2) size q seqs

/-! ### loser tree merges -/

/-- `*seqs_begin[source].first; ++seqs_begin[source].first` -/
def takeFrom (seqs : List (Seq α)) (source : Nat) : Option (α × List (Seq α)) := do
  let s ← seqs[source]?
  match s.xs with
  | [] => none
  | x :: rest => some (x, seqs.set source { s with xs := rest })

/-- the feed-and-extract loop of `multiway_merge_loser_tree` -/
def ltLoop (lt : α → α → Bool) (dflt : α) :
    Nat → Tree α → Nat → List (Seq α) → Option (List (Seq α) × List α)
  | 0, _, _, seqs => some (seqs, [])
  | n + 1, t, source, seqs => do
    let s ← seqs[source]?
    let t' ← t.deleteMinInsert lt dflt s.xs.head?           -- feed (nullptr, true) when exhausted
    let source' ← t'.minSource
    let (x, seqs') ← takeFrom seqs source'
    let (fin, out) ← ltLoop lt dflt n t' source' seqs'
    pure (fin, x :: out)

/-- `multiway_merge_loser_tree<LoserTree<Stable, …>>`; `copy` = the element is small enough for
the copying tree (`sizeof(ValueType) <= 2 * sizeof(size_t)`) -/
def multiwayMergeLoserTree (copy stable : Bool) (lt : α → α → Bool) (dflt : α) (seqs : List (Seq α)) (size : Nat) :
    Option (List (Seq α) × List α) := do
  let t ← Tree.start { copy := copy, guarded := true, stable := stable } lt dflt dflt (seqs.map (·.xs.head?))
  let total := min size (totalSize seqs)
  if total = 0 then pure (seqs, []) else do
    let source ← t.minSource
    let (x, seqs') ← takeFrom seqs source
    let (fin, out) ← ltLoop lt dflt (total - 1) t source seqs'
    pure (fin, x :: out)

/-- the loop of `multiway_merge_loser_tree_unguarded` (`&*seqs_begin[source].first` must be readable) -/
def ltuLoop (lt : α → α → Bool) (dflt : α) :
    Nat → Tree α → Nat → List (Seq α) → Option (List (Seq α) × List α)
  | 0, _, _, seqs => some (seqs, [])
  | n + 1, t, source, seqs => do
    let s ← seqs[source]?
    let nx ← s.xs.head?                                       -- one past the end otherwise
    let t' ← t.deleteMinInsert lt dflt (some nx)
    let source' ← t'.minSource
    let (x, seqs') ← takeFrom seqs source'
    let (fin, out) ← ltuLoop lt dflt n t' source' seqs'
    pure (fin, x :: out)

/-- `multiway_merge_loser_tree_unguarded<LoserTreeUnguarded<Stable, …>>`; here every sequence's
`xs` is the whole range handed to the function (including a sentinel the caller added) -/
def multiwayMergeLoserTreeUnguarded (copy stable : Bool) (lt : α → α → Bool) (dflt : α) (seqs : List (Seq α))
    (size : Nat) : Option (List (Seq α) × List α) := do
  let s0 ← seqs[0]?
  let sentinel ← s0.xs.getLast?                               -- *(seqs_begin->second - 1)
  let heads ← seqs.mapM (·.xs.head?)                          -- assert(first != second)
  let t ← Tree.start { copy := copy, guarded := false, stable := stable } lt sentinel dflt (heads.map some)
  let size := min (totalSize seqs) size
  if size = 0 then pure (seqs, []) else do
    let source ← t.minSource
    let (x, seqs') ← takeFrom seqs source
    let (fin, out) ← ltuLoop lt dflt (size - 1) t source seqs'
    pure (fin, x :: out)

def multiwayMergeLoserTreeCombined (copy stable : Bool) (lt : α → α → Bool) (dflt : α) (seqs : List (Seq α))
    (size : Nat) : Option (List (Seq α) × List α) := do
  let (ov, _) ← prepareUnguarded stable lt seqs
  let total := totalSize seqs
  let (seqs1, out1, overhang) ←
    match ov with
    | some o => do
      let ug := min size (total - o)
      let (s1, o1) ← multiwayMergeLoserTreeUnguarded copy stable lt dflt seqs ug
      pure (s1, o1, size - ug)
    | none => pure (seqs, [], size)
  let (seqs2, out2) ← multiwayMergeLoserTree copy stable lt dflt seqs1 overhang
  pure (seqs2, out1 ++ out2)

/-- `multiway_merge_loser_tree_sentinel<Stable>`: `++second` for every sequence, unguarded merge,
`--second` -/
def multiwayMergeLoserTreeSentinel (copy stable : Bool) (lt : α → α → Bool) (dflt : α) (seqs : List (Seq α))
    (size : Nat) : Option (List (Seq α) × List α) := do
  let ext ← seqs.mapM fun s => s.guard.map fun g => ({ xs := s.xs ++ [g], guard := none } : Seq α)
  let (fin, out) ← multiwayMergeLoserTreeUnguarded copy stable lt dflt ext size
  let back ← (fin.zip seqs).mapM fun (f, s) =>
    if f.xs.isEmpty then none else some ({ xs := f.xs.dropLast, guard := s.guard } : Seq α)
  pure (back, out)

/-! ### multiway_merge_base -/

inductive Algo | loserTree | loserTreeCombined | loserTreeSentinel | bubble
  deriving Repr, DecidableEq, Inhabited

/-- `multiway_merge_base<Stable, Sentinels>(seqs, target, size, comp, mwma)` -/
def multiwayMergeBase (M3 M4 : Machine) (copy stable sentinels : Bool) (lt : α → α → Bool) (dflt : α)
    (seqs : List (Seq α)) (size : Nat) (mwma : Algo) : Option (List (Seq α) × List α) :=
  let mwma := if !sentinels && mwma = .loserTreeSentinel then .loserTreeCombined else mwma
  match seqs with
  | [] => some ([], [])
  | [s] => do
    let (r, o) ← copyN s.xs size
    pure ([{ s with xs := r }], o)
  | [s1, s2] => do
    let (a, b, o) ← mergeAdvance lt s1.xs s2.xs size
    pure ([{ s1 with xs := a }, { s2 with xs := b }], o)
  | [_, _, _] =>
    match mwma with
    | .loserTreeCombined => multiwayMerge3Combined lt M3 seqs size
    | .loserTreeSentinel => machineMerge false lt M3 seqs size
    | _ => machineMerge true lt M3 seqs size
  | [_, _, _, _] =>
    match mwma with
    | .loserTreeCombined => multiwayMerge4Combined lt M3 M4 seqs size
    | .loserTreeSentinel => machineMerge false lt M4 seqs size
    | _ => machineMerge true lt M4 seqs size
  | _ =>
    match mwma with
    | .bubble => multiwayMergeBubble stable lt seqs size
    | .loserTree => multiwayMergeLoserTree copy stable lt dflt seqs size
    | .loserTreeCombined => multiwayMergeLoserTreeCombined copy stable lt dflt seqs size
    | .loserTreeSentinel => multiwayMergeLoserTreeSentinel copy stable lt dflt seqs size

end TlxVerif.C05
