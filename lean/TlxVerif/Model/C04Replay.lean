/-
C04 model, part 5: replay of an event trace of the real sorter (harness/c04d.cpp, run
under the deterministic scheduler) through the protocol transition system
(Model/C04Proto.lean, fixed configuration).

Every event of the trace must be produced by an enabled transition of the task that
the acting thread is running, with the same counter value.  Between two events of a
thread the model may only execute instructions without visible effect (`acc`, leaving the
spawn loop, `rpn` of the root).  Jobs are matched by position: the thread pool's queue is
FIFO, so the n-th job start (`J`) runs the n-th enqueued job, and the model appends a
task for every enqueue (`Q`).  Step objects are numbered by the harness in the order of
their construction and by the model in the order of `newChild` (executed at the `Q` that
publishes the new step); `ids` translates.
-/
import TlxVerif.Model.C04Proto
namespace TlxVerif.C04.Replay
open Proto

inductive Ev
  | init (o : Nat) (big : Bool) (parts : Nat)
  | add (o v : Nat) | sub (o v : Nat) | store (o v : Nat) | dec (o v : Nat)
  | destroy (o : Nat) | enq | job
  deriving Repr, DecidableEq

structure RState where
  s : State
  cur : List (Nat × Nat)            -- thread -> task it is running
  started : Nat                     -- number of jobs started so far
  ids : List (Nat × Nat)            -- harness step number -> model object id
  born : List (Nat × (Nat × Bool × Nat))   -- thread -> constructed, not yet enqueued step (harness number, big, parts)
  deriving Repr

def lookup (l : List (Nat × α)) (k : Nat) : Option α := (l.find? (·.1 = k)).map (·.2)
def setKey (l : List (Nat × α)) (k : Nat) (v : α) : List (Nat × α) := (k, v) :: l.filter (·.1 ≠ k)

/-- what the replay wants the task to do next -/
inductive Want
  | add (mid v : Nat) (spawn : Option (Kind × Nat))
  | sub (mid v : Nat)
  | store (mid v : Nat)
  | dec (mid v : Nat)
  | destroy (mid : Nat)
  | enq
  | child (big : Bool) (parts : Nat)
  | flush

def head? (s : State) (ti : Nat) : Option Instr := (s.tasks[ti]?).bind List.head?

/-- run task `ti` until the wanted visible step was done; `Except` carries the reason of a rejection -/
def advance (fuel : Nat) (s : State) (ti : Nat) (w : Want) : Except String (State × List Event) :=
  match fuel with
  | 0 => .error "fuel"
  | fuel + 1 =>
    let stepWith (ch : Choice) (k : State → List Event → Except String (State × List Event)) :=
      match exec Cfg.fixed s ti ch with
      | some (s', evs) => if s'.err.isSome then .error s!"model error {repr s'.err}" else k s' evs
      | none => .error "task cannot move"
    match head? s ti, w with
    | none, .flush => .ok (s, [])
    | none, _ => .error "task finished but the thread still acts"
    | some (.acc _), _ => stepWith .none fun s' _ => advance fuel s' ti w
    | some (.rpn c), w =>
      -- root: nothing visible; otherwise the parent's notification is the visible step
      match (s.objs[c]?).bind (·.parent), w with
      | none, _ => stepWith .none fun s' _ => advance fuel s' ti w
      | some _, .sub _ _ => stepWith .none fun s' _ => advance fuel s' ti w
      | some _, _ => .error "pending parent notification but the thread does something else"
    | some (.loop o), .add mid _ (some (k, parts)) =>
      if o = mid then stepWith (.spawn k parts) fun s' _ => advance fuel s' ti w
      else stepWith .exit fun s' _ => advance fuel s' ti w
    | some (.loop _), .add _ _ none => .error "increment in the spawn loop without a following new step"
    | some (.loop _), _ => stepWith .exit fun s' _ => advance fuel s' ti w
    | some (.incrH o _), .add mid v _ =>
      if o = mid then stepWith .none fun s' evs => if evs = [.add mid v] then .ok (s', evs) else .error s!"counter value differs: model {repr evs}"
      else .error "increment of another step"
    | some (.incrC o _ _), .add mid v _ =>
      if o = mid then stepWith .none fun s' evs => if evs = [.add mid v] then .ok (s', evs) else .error s!"counter value differs: model {repr evs}"
      else .error "increment of another step"
    | some (.notify o), .sub mid v =>
      if o = mid then stepWith .none fun s' evs => if evs = [.sub mid v] then .ok (s', evs) else .error s!"counter value differs: model {repr evs}"
      else .error "notification of another step"
    | some (.startLoop o _), .store mid v =>
      if o = mid then stepWith .none fun s' evs => if evs = [.store mid v] then .ok (s', evs) else .error s!"pwork value differs: model {repr evs}"
      else .error "store to another step"
    | some (.decPwork o _), .dec mid v =>
      if o = mid then stepWith .none fun s' evs => if evs = [.dec mid v] then .ok (s', evs) else .error s!"pwork value differs: model {repr evs}"
      else .error "decrement of another step"
    | some (.del o), .destroy mid =>
      if o = mid then stepWith .none fun s' evs => .ok (s', evs) else .error "delete of another step"
    | some (.enq _ _), .enq => stepWith .none fun s' evs => .ok (s', evs)
    | some (.newChild _ k _), .child big _ =>
      if (k = .big) = big then stepWith .none fun s' evs => .ok (s', evs) else .error "kind of the new step differs"
    | some i, _ => .error s!"next model instruction {repr i} does not match the event"

def parseNat (s : String) : Option Nat := s.toNat?

/-- `<tid>:<event>` -/
def parseEv (tok : String) : Option (Nat × Ev) :=
  match tok.splitOn ":" with
  | [t, e] => do
    let t ← parseNat t
    if e = "Q" then pure (t, .enq) else if e = "J" then pure (t, .job) else
    let c := e.toList.headD ' '
    let rest := String.ofList (e.toList.drop 1)
    if c = 'X' then (parseNat rest).map fun o => (t, .destroy o) else
    match rest.splitOn "=" with
    | [o, v] => do
      let o ← parseNat o; let v ← parseNat v
      match c with
      | 'A' => pure (t, .add o v) | 'S' => pure (t, .sub o v)
      | 'W' => pure (t, .store o v) | 'D' => pure (t, .dec o v)
      | _ => none
    | _ => none
  | [t, e, k] => do      -- I<o>:<b|s><parts>
    let t ← parseNat t
    if e.toList.headD ' ' ≠ 'I' then none else
    let o ← parseNat (String.ofList (e.toList.drop 1))
    let big := k.toList.headD ' ' = 'b'
    let parts ← parseNat (String.ofList (k.toList.drop 1))
    pure (t, .init o big parts)
  | _ => none

def fuelPer : Nat := 64

/-- next step construction by thread `t` in the rest of the trace (needed when the thread increments inside its spawn loop) -/
def nextChild (t : Nat) : List (Nat × Ev) → Option (Kind × Nat)
  | [] => none
  | (t', .init _ big parts) :: rest => if t' = t then some (if big then .big else .small, parts) else nextChild t rest
  | (t', .add _ _) :: rest => if t' = t then none else nextChild t rest
  | (t', .sub _ _) :: rest => if t' = t then none else nextChild t rest
  | _ :: rest => nextChild t rest

def replayGo : Nat → RState → List (Nat × Ev) → Except String RState
  | _, r, [] => .ok r
  | n, r, (t, ev) :: rest => do
    let mid (o : Nat) : Except String Nat :=
      match lookup r.ids o with
      | some m => .ok m
      | none => .error s!"event {n}: step {o} is not published yet"
    let task : Except String Nat :=
      match lookup r.cur t with
      | some ti => .ok ti
      | none => .error s!"event {n}: thread {t} acts outside a job"
    let adv (w : Want) : Except String RState := do
      let ti ← task
      match advance fuelPer r.s ti w with
      | .ok (s', _) => pure { r with s := s' }
      | .error e => .error s!"event {n} ({repr ev}) of thread {t} in task {ti}: {e}"
    let r' ← match ev with
      | .job => do
        -- the previous job of this thread must be finished
        let r ← match lookup r.cur t with
          | some ti =>
            match advance fuelPer r.s ti .flush with
            | .ok (s', _) => (pure { r with s := s' } : Except String RState)
            | .error e => .error s!"event {n}: previous job {ti} of thread {t} is not finished: {e}"
          | none => pure r
        if r.started < r.s.tasks.length then pure { r with cur := setKey r.cur t r.started, started := r.started + 1 }
        else .error s!"event {n}: job start but the model has no queued task"
      | .init o big parts =>
        if t = 0 ∧ o = 0 then pure r      -- the root step: created by the caller (initial state)
        else pure { r with born := setKey r.born t (o, big, parts) }
      | .enq =>
        match lookup r.born t with
        | some (o, big, parts) =>
          if t = 0 ∧ lookup r.cur t = none then pure r else do
          let r1 ← adv (.child big parts)
          pure { r1 with ids := setKey r1.ids o (r.s.objs.length), born := r1.born.filter (·.1 ≠ t) }
        | none => if t = 0 ∧ lookup r.cur t = none then pure r else adv .enq
      | .add o v => do let m ← mid o; adv (.add m v (nextChild t rest))
      | .sub o v => do let m ← mid o; adv (.sub m v)
      | .store o v => do let m ← mid o; adv (.store m v)
      | .dec o v => do let m ← mid o; adv (.dec m v)
      | .destroy o => do let m ← mid o; adv (.destroy m)
    replayGo (n + 1) r' rest

/-- replay a whole trace; answers how many transitions the model made -/
def replay (evs : List (Nat × Ev)) : Except String String :=
  match evs with
  | (0, .init 0 big parts) :: rest => do
    let s0 := Proto.init (if big then .big else .small) parts
    let r0 : RState := { s := s0, cur := [], started := 0, ids := [(0, 0)], born := [] }
    let r ← replayGo 1 r0 rest
    -- finish the jobs that are still open
    let r ← r.cur.foldlM (fun (r : RState) (p : Nat × Nat) =>
      match advance fuelPer r.s p.2 .flush with
      | .ok (s', _) => (pure { r with s := s' } : Except String RState)
      | .error e => .error s!"end: job {p.2} of thread {p.1} is not finished: {e}") r
    if r.s.err.isSome then .error "model error at the end" else
    if ¬ r.s.tasks.all List.isEmpty then .error s!"end: the model still has work: {repr r.s.tasks}" else
    if r.s.objs.any (·.alive) then .error "end: a step of the model is still alive" else
    pure s!"trace-ok events={evs.length} steps={r.s.objs.length} jobs={r.s.tasks.length}"
  | _ => .error "trace does not start with the creation of the root step"

end TlxVerif.C04.Replay
