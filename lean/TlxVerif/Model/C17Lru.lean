/-
Model of `tlx::LruCacheSet<Key>` / `tlx::LruCacheMap<Key, Value>` (tlx/container/lru_cache.hpp).

`list_` is a `List (K × V)` (front = most recently used; the set variant uses `V = Unit`-like
dummy values), `map_` is represented by its key set `keys` (an `unordered_map` from key to the
list iterator of that key; `std::list`/`std::unordered_map` are trusted, and "the iterator stored
for `k` designates the list node holding `k`" is the invariant `Lru.Consistent` proved in
Props/C17).  Every member function is transliterated on both components.
A thrown `std::range_error` is `Except.error ()`.
-/
namespace TlxVerif.C17

structure Lru (K V : Type) where
  list : List (K × V) := []     -- list_
  keys : List K := []           -- key set of map_
  deriving Repr

variable {K V : Type} [DecidableEq K]

/-- `list_.erase(it)` for the iterator stored under `k`: removes the node holding `k` -/
def eraseKey (k : K) : List (K × V) → List (K × V)
  | [] => []
  | e :: rest => if e.1 = k then rest else e :: eraseKey k rest

/-- the list node the iterator stored under `k` points to -/
def findKey (k : K) : List (K × V) → Option (K × V)
  | [] => none
  | e :: rest => if e.1 = k then some e else findKey k rest

/-- `list_.splice(list_.begin(), list_, it)`: move the node of `k` to the front -/
def spliceFront (k : K) (l : List (K × V)) : List (K × V) :=
  match findKey k l with
  | some e => e :: eraseKey k l
  | none => l

def Lru.clear (_ : Lru K V) : Lru K V := { list := [], keys := [] }

/-- `put(key, value)` -/
def Lru.put (c : Lru K V) (k : K) (v : V) : Lru K V :=
  let c1 : Lru K V :=
    if k ∈ c.keys then { list := eraseKey k c.list, keys := c.keys.erase k } else c
  { list := (k, v) :: c1.list, keys := k :: c1.keys }

/-- `touch(key)`; throws `range_error` when absent -/
def Lru.touch (c : Lru K V) (k : K) : Except Unit (Lru K V) :=
  if k ∈ c.keys then .ok { c with list := spliceFront k c.list } else .error ()

/-- `touch_if_exists(key)` -/
def Lru.touchIfExists (c : Lru K V) (k : K) : Lru K V × Bool :=
  if k ∈ c.keys then ({ c with list := spliceFront k c.list }, true) else (c, false)

/-- `erase(key)`; throws when absent -/
def Lru.erase (c : Lru K V) (k : K) : Except Unit (Lru K V) :=
  if k ∈ c.keys then .ok { list := eraseKey k c.list, keys := c.keys.erase k } else .error ()

/-- `erase_if_exists(key)` -/
def Lru.eraseIfExists (c : Lru K V) (k : K) : Lru K V × Bool :=
  if k ∈ c.keys then ({ list := eraseKey k c.list, keys := c.keys.erase k }, true) else (c, false)

/-- `get(key)`; throws when absent.  `none` inside `ok` would be a dangling iterator. -/
def Lru.get (c : Lru K V) (k : K) : Except Unit (Option V) :=
  if k ∈ c.keys then .ok ((findKey k c.list).map (·.2)) else .error ()

/-- `get_touch(key)` -/
def Lru.getTouch (c : Lru K V) (k : K) : Except Unit (Lru K V × Option V) :=
  if k ∈ c.keys then
    let l := spliceFront k c.list
    .ok ({ c with list := l }, (findKey k l).map (·.2))
  else .error ()

def Lru.exists (c : Lru K V) (k : K) : Bool := decide (k ∈ c.keys)

/-- `size()` is `map_.size()` -/
def Lru.size (c : Lru K V) : Nat := c.keys.length

/-- `pop()` (precondition `size() > 0`): `last = --list_.end(); map_.erase(last key); list_.pop_back()` -/
def Lru.pop (c : Lru K V) : Option (Lru K V × (K × V)) :=
  match c.list.getLast? with
  | some e => some ({ list := c.list.dropLast, keys := c.keys.erase e.1 }, e)
  | none => none

end TlxVerif.C17
