/-
C19 — executable model of tlx/string/split.cpp, join.cpp (+ join_generic.hpp),
join_quoted.cpp and split_quoted.cpp.  Loops are structural / well-founded recursions
with the same branch order as the code; `cur` is the range `[last, it)` of the
split loops, `count` is `into->size()`.
-/
import TlxVerif.Model.C18Spec
namespace TlxVerif.C19
open TlxVerif.C18 (Bytes npos)

/-! ### split(char) -/

def splitCharLoop (sep : UInt8) (limit : Nat) : Bytes → Bytes → Nat → List Bytes
  | [], cur, _ => [cur]                                   -- into->emplace_back(last, it)
  | c :: rest, cur, count =>
    if c == sep then
      if count + 1 ≥ limit then [cur ++ c :: rest]        -- emplace_back(last, str.end())
      else cur :: splitCharLoop sep limit rest [] (count + 1)
    else splitCharLoop sep limit rest (cur ++ [c]) count

/-- `split(into, char sep, str, limit)` -/
def splitChar (sep : UInt8) (str : Bytes) (limit : Nat) : List Bytes :=
  if limit = 0 then [] else splitCharLoop sep limit str [] 0

/-! ### split(string_view) -/

/-- the `sep.empty()` branch: one part per byte, the last part takes the rest when the
limit is reached -/
def splitEmptyLoop (limit : Nat) : Bytes → Nat → List Bytes
  | [], _ => []
  | c :: rest, count =>
    if count + 1 ≥ limit then [c :: rest]
    else [c] :: splitEmptyLoop limit rest (count + 1)

/-- main loop: runs while at least `sep.size()` bytes remain -/
def splitStrLoop (sep : Bytes) (limit : Nat) (rest cur : Bytes) (count : Nat) : List Bytes :=
  if _h : rest.length < sep.length ∨ sep.length = 0 then [cur ++ rest]   -- emplace_back(last, str.end())
  else if sep.isPrefixOf rest then                         -- std::equal(sep.begin(), sep.end(), it)
    if count + 1 ≥ limit then [cur ++ rest]
    else cur :: splitStrLoop sep limit (rest.drop sep.length) [] (count + 1)
  else
    match rest with
    | [] => [cur]                                          -- not reached: sep is not empty
    | c :: rest' => splitStrLoop sep limit rest' (cur ++ [c]) count
termination_by rest.length
decreasing_by
  · simp only [List.length_drop]; omega
  · simp

/-- `split(into, string_view sep, str, limit)` -/
def splitStr (sep str : Bytes) (limit : Nat) : List Bytes :=
  if limit = 0 then []
  else if sep.isEmpty then splitEmptyLoop limit str 0
  else splitStrLoop sep limit str [] 0

/-- the `min_fields` overloads: `if (into->size() < min_fields) into->resize(min_fields)` -/
def padFields (v : List Bytes) (minFields : Nat) : List Bytes :=
  if v.length < minFields then v ++ List.replicate (minFields - v.length) [] else v

def splitCharMin (sep : UInt8) (str : Bytes) (minFields limit : Nat) : List Bytes :=
  padFields (splitChar sep str limit) minFields
def splitStrMin (sep str : Bytes) (minFields limit : Nat) : List Bytes :=
  padFields (splitStr sep str limit) minFields

/-! ### join -/

/-- `join(glue, first, last)` of join_generic.hpp -/
def join (glue : Bytes) : List Bytes → Bytes
  | [] => []
  | p :: ps => p ++ (ps.flatMap fun x => glue ++ x)

/-! ### join_quoted -/

/-- the body of the quoted branch: escape quotes, escapes, \n, \r, \t -/
def quoteBody (quote esc : UInt8) : Bytes → Bytes
  | [] => []
  | c :: t =>
    (if c == quote || c == esc then [esc, c]
     else if c == 10 then [esc, 110]
     else if c == 13 then [esc, 114]
     else if c == 9 then [esc, 116]
     else [c]) ++ quoteBody quote esc t

/-- which fields are written in quotes -/
def needsQuote (sep quote : UInt8) (s : Bytes) : Bool :=
  s.contains sep || s.isEmpty || s.head? == some quote

def quoteField (sep quote esc : UInt8) (s : Bytes) : Bytes :=
  if needsQuote sep quote s then quote :: (quoteBody quote esc s ++ [quote]) else s

/-- `join_quoted(strs, sep, quote, escape)` -/
def joinQuoted (strs : List Bytes) (sep quote esc : UInt8) : Bytes :=
  match strs with
  | [] => []
  | s :: ss => quoteField sep quote esc s ++ (ss.flatMap fun x => sep :: quoteField sep quote esc x)

/-! ### split_quoted -/

/-- where the parser of `split_quoted` stands -/
inductive SQ where
  | outer        -- the `for` loop, between fields
  | unq          -- "parse unquoted entry"
  | q            -- "parse quoted entry"
  | qQuote       -- just consumed a quote inside a quoted entry
  | qEsc         -- just consumed an escape inside a quoted entry
deriving DecidableEq, Repr

/-- one byte per step; `entry` is the `std::string entry` (empty again after it was
moved into `out`).  `none` = `std::runtime_error` -/
def splitQuotedLoop (sep quote esc : UInt8) : SQ → Bytes → Bytes → Option (List Bytes)
  | .outer, _, [] => some []
  | .unq, entry, [] => some [entry]                 -- end-of-line
  | .q, _, [] => none                               -- unmatched end quote
  | .qQuote, entry, [] => some [entry]              -- last quote and end-of-line
  | .qEsc, _, [] => none                            -- escape as last character
  | .outer, entry, c :: t =>
    if c == sep then splitQuotedLoop sep quote esc .outer entry t
    else if c == quote then splitQuotedLoop sep quote esc .q entry t
    else splitQuotedLoop sep quote esc .unq (entry ++ [c]) t
  | .unq, entry, c :: t =>
    if c == sep then (splitQuotedLoop sep quote esc .outer [] t).map (entry :: ·)
    else splitQuotedLoop sep quote esc .unq (entry ++ [c]) t
  | .q, entry, c :: t =>
    if c == quote then splitQuotedLoop sep quote esc .qQuote entry t
    else if c == esc then splitQuotedLoop sep quote esc .qEsc entry t
    else splitQuotedLoop sep quote esc .q (entry ++ [c]) t
  | .qQuote, entry, c :: t =>
    if c == sep then (splitQuotedLoop sep quote esc .outer [] t).map (entry :: ·)
    else none                                       -- extra quote enclosed in entry
  | .qEsc, entry, c :: t =>
    if c == quote then splitQuotedLoop sep quote esc .q (entry ++ [c]) t
    else if c == esc then splitQuotedLoop sep quote esc .q (entry ++ [c]) t
    else if c == 110 then splitQuotedLoop sep quote esc .q (entry ++ [10]) t
    else if c == 114 then splitQuotedLoop sep quote esc .q (entry ++ [13]) t
    else if c == 116 then splitQuotedLoop sep quote esc .q (entry ++ [9]) t
    else none                                       -- escape followed by unknown character

/-- `split_quoted(str, sep, quote, escape)` -/
def splitQuoted (str : Bytes) (sep quote esc : UInt8) : Option (List Bytes) :=
  splitQuotedLoop sep quote esc .outer [] str

end TlxVerif.C19
