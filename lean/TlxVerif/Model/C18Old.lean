/-
C18 — the members of tlx::StringView that were defective on the pinned tree,
transliterated as they were *before* the `fix:` commits (DESIGN §5 D14–D17).
Kept so that the defects stay machine-checked facts: Props/C18.lean proves for
each of them a concrete disagreement with the specification.  (These pre-fix
definitions were validated against the unfixed header through the same
correspondence, see notes/C18.md.)
-/
import TlxVerif.Model.C18StringView
namespace TlxVerif.C18
namespace Old
open Model

/-- `std::strncmp(a, b, n)`, normalised to its sign: stops at the first NUL -/
def strncmp : Bytes → Bytes → Nat → Int
  | _, _, 0 => 0
  | a :: as, b :: bs, n + 1 =>
    if a < b then -1 else if b < a then 1 else if a == 0 then 0 else strncmp as bs n
  | _, _, _ + 1 => 0

/-- plain `char` is signed on the target: `a < b` on `char` -/
def signedLt (a b : UInt8) : Bool := (a.toNat + 128) % 256 < (b.toNat + 128) % 256

/-- D14: `std::copy(data(), data() + rsize, s)` — ignores `pos` -/
def copy (h : Bytes) (n pos : Nat) : Option (Nat × Bytes) :=
  if pos > h.length then none
  else
    let rsize := min n (h.length - pos)
    some (rsize, h.take rsize)

/-- D15: `compare` through `std::strncmp` -/
def compare (h x : Bytes) : Int :=
  let cmp := strncmp h x (min h.length x.length)
  if cmp ≠ 0 then cmp
  else if h.length = x.length then 0
  else if h.length < x.length then -1 else 1

def compare3 (h : Bytes) (pos1 n1 : Nat) (x : Bytes) : Option Int :=
  (substr h pos1 n1).map fun a => compare a.2 x

def compare5 (h : Bytes) (pos1 n1 : Nat) (x : Bytes) (pos2 n2 : Nat) : Option Int :=
  match substr h pos1 n1 with
  | none => none
  | some a =>
    match substr x pos2 n2 with
    | none => none
    | some b => some (compare a.2 b.2)

/-- D16: `rfind` loop through `std::strncmp` -/
def rfindLoop (h s : Bytes) : Nat → Nat
  | 0 => if strncmp h s s.length == 0 then 0 else npos
  | cur + 1 =>
    if strncmp (h.drop (cur + 1)) s s.length == 0 then cur + 1
    else rfindLoop h s cur

def rfind (h s : Bytes) (pos : Nat) : Nat :=
  if h.length < s.length then npos
  else
    let pos := if pos > h.length - s.length then h.length - s.length else pos
    if s.length = 0 then pos
    else rfindLoop h s pos

/-- D17: `operator<` = `std::lexicographical_compare` on plain (signed) `char` -/
def lt (h o : Bytes) : Bool := lexCompare signedLt h o

end Old
end TlxVerif.C18
