/-!
C14 — bytes, words and blocks shared by the specifications and the models.

`beWord`/`leWord` give the numeric meaning of a byte string (most / least significant byte
first), `beBytes`/`leBytes` the byte string of a word.  They are what `load32`, `load32l`,
`load64`, `store32`, `store32l`, `store64`, `store64l`, … of the tlx sources compute (one-line
shift loops); the models use these definitions for them.
-/
namespace TlxVerif.C14

abbrev Byte := BitVec 8
abbrev Bytes := List Byte

/-- big-endian value of a byte string in `w` bits -/
def beWord (w : Nat) (bs : Bytes) : BitVec w :=
  bs.foldl (fun acc b => (acc <<< 8) ||| b.setWidth w) 0

/-- little-endian value of a byte string in `w` bits -/
def leWord (w : Nat) (bs : Bytes) : BitVec w := beWord w bs.reverse

/-- the `n` low-order bytes of `x`, least significant first -/
def leBytes {w : Nat} (n : Nat) (x : BitVec w) : Bytes :=
  (List.range n).map fun i => (x >>> (8 * i)).setWidth 8

/-- the `n` low-order bytes of `x`, most significant first -/
def beBytes {w : Nat} (n : Nat) (x : BitVec w) : Bytes := (leBytes n x).reverse

/-- consecutive full blocks of `B` bytes (an incomplete rest is dropped) -/
def toBlocks {α : Type} (B : Nat) (l : List α) : List (List α) :=
  if 0 < B ∧ B ≤ l.length then l.take B :: toBlocks B (l.drop B) else []
termination_by l.length
decreasing_by simp [List.length_drop]; omega

/-- hexadecimal rendering with a 16-entry digit table (`hexdump`, `hexdump_lc`):
    `xdigits[(c & 0xF0) >> 4]`, `xdigits[c & 0x0F]` per byte -/
def hexdumpWith (xdigits : List Char) (bs : Bytes) : String :=
  String.ofList (bs.flatMap fun c =>
    [xdigits.getD ((c &&& 0xF0#8) >>> 4).toNat '?', xdigits.getD (c &&& 0x0F#8).toNat '?'])

end TlxVerif.C14
