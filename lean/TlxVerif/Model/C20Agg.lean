/-
C20 — exact model of tlx::Aggregate over ℚ (core `Rat`), following the code's formulas
(aggregate.hpp after the D27/D28 repairs).  A floating-point division by zero (NaN/inf in
C++) is `none`; the theorems show it never happens.
-/
namespace TlxVerif.C20

/-- `std::numeric_limits<Type>::max()` / `lowest()` of the aggregated type -/
structure Lim where
  tmax : Rat
  tlowest : Rat

structure Agg where
  count : Nat
  mean : Rat
  nvar : Rat
  min : Rat
  max : Rat
deriving DecidableEq

/-- a C++ `double` division; `none` when the divisor is zero -/
def qdiv (a b : Rat) : Option Rat := if b = 0 then none else some (a / b)

/-- `std::min(a, b)`: `(b < a) ? b : a` -/
def cmin (a b : Rat) : Rat := if b < a then b else a
/-- `std::max(a, b)`: `(a < b) ? b : a` -/
def cmax (a b : Rat) : Rat := if a < b then b else a

/-- default-constructed Aggregate -/
def Agg.empty (L : Lim) : Agg := ⟨0, 0, 0, L.tmax, L.tlowest⟩

/-- `add(value)`: Welford update -/
def Agg.add (a : Agg) (v : Rat) : Option Agg := do
  let count := a.count + 1
  let mn := cmin a.min v
  let mx := cmax a.max v
  let delta := v - a.mean
  let q ← qdiv delta count
  let mean := a.mean + q
  let nvar := a.nvar + delta * (v - mean)
  pure ⟨count, mean, nvar, mn, mx⟩

/-- `combine_means(a)` called on `t` -/
def combineMeans (t a : Agg) : Option Rat :=
  if t.count = 0 then some a.mean
  else if a.count = 0 then some t.mean
  else qdiv (t.mean * t.count + a.mean * a.count) ((t.count + a.count : Nat) : Rat)

/-- `combine_variance(other)` called on `t` (with the empty-side guards of the D28 repair) -/
def combineVariance (t o : Agg) : Option Rat :=
  if t.count = 0 then some o.nvar
  else if o.count = 0 then some t.nvar
  else do
    let delta := t.mean - o.mean
    let q ← qdiv ((delta * delta) * ((t.count * o.count : Nat) : Rat)) ((t.count + o.count : Nat) : Rat)
    pure (t.nvar + o.nvar + q)

/-- `operator+` -/
def Agg.plus (t a : Agg) : Option Agg := do
  let m ← combineMeans t a
  let v ← combineVariance t a
  pure ⟨t.count + a.count, m, v, cmin t.min a.min, cmax t.max a.max⟩

/-- `operator+=` (statement order after the D27 repair).  `other` yields the right operand
    given the *current* state of `*this`: a constant function normally, `id` for `x += x`
    (the parameter is a reference, so it aliases the object being updated). -/
def Agg.plusEqWith (t : Agg) (other : Agg → Agg) : Option Agg := do
  let v ← combineVariance t (other t)
  let t := { t with nvar := v }
  let m ← combineMeans t (other t)
  let t := { t with mean := m }
  let t := { t with min := cmin t.min (other t).min }
  let t := { t with max := cmax t.max (other t).max }
  let t := { t with count := t.count + (other t).count }
  pure t

def Agg.plusEq (t a : Agg) : Option Agg := t.plusEqWith (fun _ => a)
def Agg.plusEqSelf (t : Agg) : Option Agg := t.plusEqWith id

/-- `variance(ddof)`: `if (count_ <= 1) return 0.0; return nvar_ / double(count_ - ddof);`
    (`count_ - ddof` is `size_t` arithmetic; ddof is 0 or 1 in tlx) -/
def Agg.variance (a : Agg) (ddof : Nat) : Option Rat :=
  if a.count ≤ 1 then some 0 else qdiv a.nvar ((a.count - ddof : Nat) : Rat)

/-- `span()`: `max_ - min_` -/
def Agg.span (a : Agg) : Rat := a.max - a.min

/-- one Aggregate fed with all values -/
def aggOf (L : Lim) (xs : List Rat) : Option Agg := xs.foldlM Agg.add (Agg.empty L)

end TlxVerif.C20
