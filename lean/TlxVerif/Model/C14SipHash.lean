import TlxVerif.Model.C14Bytes
import TlxVerif.Gen.C14Tables
/-!
C14 — `siphash_plain` and `siphash_sse2` of tlx/siphash.hpp, statement by statement.

The SSE2 variant works on 128-bit registers holding two 64-bit lanes; the intrinsics are
modelled on `M128 = (lo, hi)` by their Intel SDM semantics (little-endian element order:
dword 0 = bits 0..31 of `lo`).  That modelling is part of the trusted base; the harness
runs both variants of the real code against each other and against an independent
reference on every run.
-/
namespace TlxVerif.C14.Model.Sip

open TlxVerif.C14

abbrev Word := BitVec 64

structure V where
  v0 : Word
  v1 : Word
  v2 : Word
  v3 : Word

/-- the portable `TLX_SIPCOMPRESS()` -/
def compress (v : V) : V :=
  let ⟨v0, v1, v2, v3⟩ := v
  let v0 := v0 + v1
  let v2 := v2 + v3
  let v1 := v1.rotateLeft 13
  let v3 := v3.rotateLeft 16
  let v1 := v1 ^^^ v0
  let v3 := v3 ^^^ v2
  let v0 := v0.rotateLeft 32
  let v2 := v2 + v1
  let v0 := v0 + v3
  let v1 := v1.rotateLeft 17
  let v3 := v3.rotateLeft 21
  let v1 := v1 ^^^ v2
  let v3 := v3 ^^^ v0
  let v2 := v2.rotateLeft 32
  ⟨v0, v1, v2, v3⟩

/-- the statements `compress` transliterates (compared with `Gen.sipRound` by a theorem) -/
def compressModelled : List String := [
  "v0 += v1", "v2 += v3", "v1 = rol64(v1, 13)", "v3 = rol64(v3, 16)", "v1 ^= v0", "v3 ^= v2",
  "v0 = rol64(v0, 32)", "v2 += v1", "v0 += v3", "v1 = rol64(v1, 17)", "v3 = rol64(v3, 21)",
  "v1 ^= v2", "v3 ^= v0", "v2 = rol64(v2, 32)"]

/-- the `switch (len - blocks)` with fall-through, entered at `case k`:
    `case k: last7 |= (uint64)m[i + k-1] << 8(k-1);  /* fall through to case k-1 */` -/
def packFrom (tail : Bytes) : Nat → Word → Word
  | 0, last7 => last7
  | k + 1, last7 => packFrom tail k (last7 ||| ((tail.getD k 0).setWidth 64 <<< (8 * k)))

def packTail (last7 : Word) (tail : Bytes) : Word := packFrom tail tail.length last7

/-- `v3 ^= mi; TLX_SIPCOMPRESS(); TLX_SIPCOMPRESS(); v0 ^= mi;` (loop body, and again for `last7`) -/
def absorb (v : V) (mi : Word) : V :=
  let v := compress (compress { v with v3 := v.v3 ^^^ mi })
  { v with v0 := v.v0 ^^^ mi }

/-- `v2 ^= 0xff; 4 × TLX_SIPCOMPRESS(); return v0 ^ v1 ^ v2 ^ v3;` -/
def finish (v : V) : Word :=
  let v := { v with v2 := v.v2 ^^^ Gen.sipFinalXor }
  let v := compress (compress (compress (compress v)))
  v.v0 ^^^ v.v1 ^^^ v.v2 ^^^ v.v3

/-- `siphash_plain(key, m, len)` with `len = msg.length` -/
def siphashPlain (key msg : Bytes) : Word :=
  let k0 := leWord 64 (key.take 8)                 -- memcpy(&k0, key + 0, 8); bswap64_le
  let k1 := leWord 64 ((key.drop 8).take 8)
  let v : V := ⟨k0 ^^^ Gen.sipInit.getD 0 0, k1 ^^^ Gen.sipInit.getD 1 0,
                k0 ^^^ Gen.sipInit.getD 2 0, k1 ^^^ Gen.sipInit.getD 3 0⟩
  let len := msg.length
  let last7 : Word := BitVec.ofNat 64 (len % 256) <<< 56          -- (len & 0xff) << 56
  let blocks := len / 8 * 8                                        -- len & ~7
  -- for (i = 0; i < blocks; i += 8) { mi = load(m + i); … }
  let v := (List.range (blocks / 8)).foldl (fun (v : V) b => absorb v (leWord 64 ((msg.drop (8 * b)).take 8))) v
  let last7 := packTail last7 (msg.drop blocks)
  finish (absorb v last7)

/-! ### SSE2 -/

/-- `__m128i` as two 64-bit lanes -/
structure M128 where
  lo : Word
  hi : Word

def dword (v : M128) : Nat → BitVec 32
  | 0 => v.lo.extractLsb' 0 32
  | 1 => v.lo.extractLsb' 32 32
  | 2 => v.hi.extractLsb' 0 32
  | _ => v.hi.extractLsb' 32 32

def ofDwords (d0 d1 d2 d3 : BitVec 32) : M128 := ⟨d1 ++ d0, d3 ++ d2⟩

def word16 (x : Word) (k : Nat) : BitVec 16 := x.extractLsb' (16 * k) 16

/-- `_mm_shuffle_epi32(v, _MM_SHUFFLE(z, y, x, w))`: dword 3..0 of the result are dwords
    z, y, x, w of `v` -/
def shuffle_epi32 (v : M128) (z y x w : Nat) : M128 := ofDwords (dword v w) (dword v x) (dword v y) (dword v z)

/-- `_mm_shufflelo_epi16(v, _MM_SHUFFLE(z, y, x, w))`: the same on the four 16-bit words of
    the low lane; the high lane is copied -/
def shufflelo_epi16 (v : M128) (z y x w : Nat) : M128 :=
  ⟨word16 v.lo z ++ word16 v.lo y ++ word16 v.lo x ++ word16 v.lo w, v.hi⟩

def slli_epi64 (v : M128) (n : Nat) : M128 := ⟨v.lo <<< n, v.hi <<< n⟩
def srli_epi64 (v : M128) (n : Nat) : M128 := ⟨v.lo >>> n, v.hi >>> n⟩
def add_epi64 (a b : M128) : M128 := ⟨a.lo + b.lo, a.hi + b.hi⟩
def xor_si128 (a b : M128) : M128 := ⟨a.lo ^^^ b.lo, a.hi ^^^ b.hi⟩
def or_si128 (a b : M128) : M128 := ⟨a.lo ||| b.lo, a.hi ||| b.hi⟩
def unpacklo_epi64 (a b : M128) : M128 := ⟨a.lo, b.lo⟩
def unpackhi_epi64 (a b : M128) : M128 := ⟨a.hi, b.hi⟩
/-- `_mm_slli_si128(v, 8)`: byte shift of the whole register by 8 bytes -/
def slli_si128_8 (v : M128) : M128 := ⟨0, v.lo⟩
/-- `_mm_srli_si128(v, 4)` -/
def srli_si128_4 (v : M128) : M128 := ofDwords (dword v 1) (dword v 2) (dword v 3) 0
def loadl_epi64 (bs : Bytes) : M128 := ⟨leWord 64 (bs.take 8), 0⟩
def loadu_si128 (bs : Bytes) : M128 := ⟨leWord 64 (bs.take 8), leWord 64 ((bs.drop 8).take 8)⟩
def cvtsi32_si128 (x : BitVec 32) : M128 := ⟨x.setWidth 64, 0⟩
def unpacklo_epi32 (a b : M128) : M128 := ofDwords (dword a 0) (dword b 0) (dword a 1) (dword b 1)
def cvtsi128_si32 (v : M128) : BitVec 32 := dword v 0

/-- the SSE2 `TLX_SIPCOMPRESS()` on the registers `v02 = (v0, v2)`, `v13 = (v1, v3)` -/
def compressSSE2 (s : M128 × M128) : M128 × M128 :=
  let (v02, v13) := s
  let v11 := v13
  let v33 := shuffle_epi32 v13 1 0 3 2
  let v11 := or_si128 (slli_epi64 v11 13) (srli_epi64 v11 (64 - 13))
  let v02 := add_epi64 v02 v13
  let v33 := shufflelo_epi16 v33 2 1 0 3
  let v13 := unpacklo_epi64 v11 v33
  let v13 := xor_si128 v13 v02
  let v20 := shuffle_epi32 v02 0 1 3 2
  let v11 := v13
  let v33 := shuffle_epi32 v13 1 0 3 2
  let v11 := or_si128 (slli_epi64 v11 17) (srli_epi64 v11 (64 - 17))
  let v20 := add_epi64 v20 v13
  let v33 := or_si128 (slli_epi64 v33 21) (srli_epi64 v33 (64 - 21))
  let v13 := unpacklo_epi64 v11 v33
  let v02 := shuffle_epi32 v20 0 1 3 2
  let v13 := xor_si128 v13 v20
  (v02, v13)

def compressSSE2Modelled : List String := [
  "v11 = v13",
  "v33 = _mm_shuffle_epi32(v13, _MM_SHUFFLE(1, 0, 3, 2))",
  "v11 = _mm_or_si128(_mm_slli_epi64(v11, 13), _mm_srli_epi64(v11, 64 - 13))",
  "v02 = _mm_add_epi64(v02, v13)",
  "v33 = _mm_shufflelo_epi16(v33, _MM_SHUFFLE(2, 1, 0, 3))",
  "v13 = _mm_unpacklo_epi64(v11, v33)",
  "v13 = _mm_xor_si128(v13, v02)",
  "v20 = _mm_shuffle_epi32(v02, _MM_SHUFFLE(0, 1, 3, 2))",
  "v11 = v13",
  "v33 = _mm_shuffle_epi32(v13, _MM_SHUFFLE(1, 0, 3, 2))",
  "v11 = _mm_or_si128(_mm_slli_epi64(v11, 17), _mm_srli_epi64(v11, 64 - 17))",
  "v20 = _mm_add_epi64(v20, v13)",
  "v33 = _mm_or_si128(_mm_slli_epi64(v33, 21), _mm_srli_epi64(v33, 64 - 21))",
  "v13 = _mm_unpacklo_epi64(v11, v33)",
  "v02 = _mm_shuffle_epi32(v20, _MM_SHUFFLE(0, 1, 3, 2))",
  "v13 = _mm_xor_si128(v13, v20)"]

/-- `v13 ^= _mm_slli_si128(mi, 8); 2 × TLX_SIPCOMPRESS(); v02 ^= mi;` -/
def absorbSSE2 (s : M128 × M128) (mi : M128) : M128 × M128 :=
  let (v02, v13) := s
  let v13 := xor_si128 v13 (slli_si128_8 mi)
  let (v02, v13) := compressSSE2 (compressSSE2 (v02, v13))
  (xor_si128 v02 mi, v13)

/-- `v02 ^= siphash_final; 4 × TLX_SIPCOMPRESS(); v02 ^= v13; v02 ^= shuffle(v02, 1,0,3,2);
    lo = cvtsi128_si32(v02); hi = cvtsi128_si32(srli_si128(v02, 4)); return hi << 32 | lo;` -/
def finishSSE2 (s : M128 × M128) : Word :=
  let (v02, v13) := s
  let v02 := xor_si128 v02 ⟨Gen.sipFinalSSE2.getD 0 0, Gen.sipFinalSSE2.getD 1 0⟩
  let (v02, v13) := compressSSE2 (compressSSE2 (compressSSE2 (compressSSE2 (v02, v13))))
  let v02 := xor_si128 v02 v13
  let v02 := xor_si128 v02 (shuffle_epi32 v02 1 0 3 2)
  let lo := cvtsi128_si32 v02
  let hi := cvtsi128_si32 (srli_si128_4 v02)
  (hi.setWidth 64 <<< 32) ||| lo.setWidth 64

/-- `mi = _mm_unpacklo_epi32(_mm_cvtsi32_si128((uint32)last7), _mm_cvtsi32_si128((uint32)(last7 >> 32)))` -/
def lastSSE2 (last7 : Word) : M128 :=
  unpacklo_epi32 (cvtsi32_si128 (last7.setWidth 32)) (cvtsi32_si128 ((last7 >>> 32).setWidth 32))

/-- `siphash_sse2(key, m, len)` -/
def siphashSSE2 (key msg : Bytes) : Word :=
  let k := loadu_si128 key
  let v02 : M128 := ⟨Gen.sipInitSSE2.getD 0 0, Gen.sipInitSSE2.getD 1 0⟩
  let v13 : M128 := ⟨Gen.sipInitSSE2.getD 2 0, Gen.sipInitSSE2.getD 3 0⟩
  let v02 := xor_si128 v02 (unpacklo_epi64 k k)
  let v13 := xor_si128 v13 (unpackhi_epi64 k k)
  let len := msg.length
  let last7 : Word := BitVec.ofNat 64 (len % 256) <<< 56
  let blocks := len / 8 * 8
  let s := (List.range (blocks / 8)).foldl (fun (s : M128 × M128) b =>
    absorbSSE2 s (loadl_epi64 (msg.drop (8 * b)))) (v02, v13)
  let last7 := packTail last7 (msg.drop blocks)
  finishSSE2 (absorbSSE2 s (lastSSE2 last7))

end TlxVerif.C14.Model.Sip
