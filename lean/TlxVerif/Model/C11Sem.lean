/-
C11 — tlx::Semaphore as a labelled transition system (same conventions as
Model/C10Pool.lean: one transition = one synchronisation operation plus the
thread-local code up to the next one; the pc names the pending operation).

Thread 0 = main (spawns the threads, joins them), thread i ≥ 1 executes its list
of operations on the one shared semaphore.

    size_t signal()            { lock; res = ++value_;        cv_.notify_all(); return res; }   // notify_one before the D7 fix
    size_t signal(size_t d)    { lock; res = (value_ += d);   cv_.notify_all(); return res; }
    size_t wait(d, s)          { lock; while (value_ < d + s) cv_.wait(lock); value_ -= d; return value_; }
    bool   try_acquire(d, s)   { lock; if (value_ < d + s) return false; value_ -= d; return true; }

Ghost state: `acquired` (tokens handed out), `signalled` (tokens added), `init`.
-/
import TlxVerif.Model.C10Sched
namespace TlxVerif.C11.Sem
open TlxVerif.Sched (StepOut)

inductive Op
  | signal1 | signalN (n : Nat) | wait (d s : Nat) | tryAcq (d s : Nat)
  deriving DecidableEq, Repr, Inhabited

inductive Pc
  | start | finished
  | mSpawn (i : Nat) | mJoin (i : Nat)
  | lock (k : Nat)                 -- unique_lock lock(mutex_) of the k-th operation
  | notify (k : Nat) (res : Nat)   -- cv_.notify_all() of signal
  | wait (k : Nat)                 -- cv_.wait(lock)
  | waiting (k : Nat)              -- woken (or spuriously), re-acquire
  | unlock (k : Nat) (ret : Nat)   -- ~unique_lock, the call returns `ret`
  deriving DecidableEq, Repr, Inhabited

structure Thread where
  ops : List Op
  pc : Pc
  deriving Repr, Inhabited

structure State where
  value : Nat
  owner : Option Nat := none
  ws : List Nat := []
  /-- threads 1..spawned have been created (a thread at `start` may run once it is created) -/
  spawned : Nat := 0
  thr : List Thread
  init : Nat
  acquired : Nat := 0
  signalled : Nat := 0
  deriving Repr

def init (v : Nat) (threads : List (List Op)) : State :=
  { value := v, init := v,
    thr := { ops := [], pc := .start } :: threads.map fun ops => { ops := ops, pc := .start } }

def nthreads (s : State) : Nat := s.thr.length - 1

def pcOf (s : State) (t : Nat) : Pc := (s.thr[t]?.map (·.pc)).getD .finished

def setPc (s : State) (t : Nat) (pc : Pc) : State :=
  { s with thr := s.thr.modify t fun th => { th with pc := pc } }

def ev (t : Nat) (e : String) : String := s!"{t}:{e}"

def enabled (s : State) (t : Nat) : Bool :=
  match pcOf s t with
  | .finished => false
  | .start => t ≤ s.spawned
  | .lock _ => s.owner.isNone
  | .waiting _ => s.owner.isNone && !s.ws.contains t
  | .mJoin i => pcOf s (i + 1) == .finished
  | _ => true

def spurCand (s : State) (t : Nat) : Bool :=
  match pcOf s t with
  | .waiting _ => s.owner.isNone && s.ws.contains t
  | _ => false

def unfinished (s : State) (t : Nat) : Bool :=
  t < s.thr.length && t ≤ s.spawned && pcOf s t != .finished

/-- what a thread needs to proceed in `wait(d, s)` -/
def need : Op → Nat
  | .wait d s => d + s
  | .tryAcq d s => d + s
  | _ => 0

/-- the code after the mutex was (re-)acquired in `wait(d,s)` -/
def afterAcquireWait (s : State) (t k d sl : Nat) : State :=
  if s.value < d + sl then setPc s t (.wait k)
  else setPc { s with value := s.value - d, acquired := s.acquired + d } t (.unlock k (s.value - d))

def out (s : State) (evs : List String) : Option (StepOut State) := some { st := s, evs := evs }

def step (s : State) (t : Nat) (_c : Nat) : Option (StepOut State) :=
  match s.thr[t]? with
  | none => none
  | some th =>
  match th.pc with
  | .finished => none
  | .start =>
    if t > s.spawned then none
    else if t = 0 then
      if nthreads s = 0 then out (setPc s t .finished) [ev t "start", ev t "end"]
      else out (setPc s t (.mSpawn 0)) [ev t "start"]
    else
      out (setPc s t (if th.ops.isEmpty then .finished else .lock 0)) [ev t "start"]
  | .mSpawn i =>
    out (setPc { s with spawned := i + 1 } t (if i + 1 < nthreads s then .mSpawn (i + 1) else .mJoin 0)) [ev t s!"spawn({i + 1})"]
  | .mJoin i =>
    if pcOf s (i + 1) == .finished then
      if i + 1 < nthreads s then out (setPc s t (.mJoin (i + 1))) [ev t s!"join({i + 1})"]
      else out (setPc s t .finished) [ev t s!"join({i + 1})", ev t "end"]
    else none
  | .lock k =>
    if s.owner.isNone then
      let s1 := { s with owner := some t }
      match th.ops[k]? with
      | none => none
      | some .signal1 =>
        out (setPc { s1 with value := s.value + 1, signalled := s.signalled + 1 } t (.notify k (s.value + 1))) [ev t "lock(m)"]
      | some (.signalN n) =>
        out (setPc { s1 with value := s.value + n, signalled := s.signalled + n } t (.notify k (s.value + n))) [ev t "lock(m)"]
      | some (.wait d sl) => out (afterAcquireWait s1 t k d sl) [ev t "lock(m)"]
      | some (.tryAcq d sl) =>
        if s.value < d + sl then out (setPc s1 t (.unlock k 0)) [ev t "lock(m)"]
        else out (setPc { s1 with value := s.value - d, acquired := s.acquired + d } t (.unlock k 1)) [ev t "lock(m)"]
    else none
  | .notify k res => out (setPc { s with ws := [] } t (.unlock k res)) [ev t s!"nall(cv)#{s.ws.length}"]
  | .wait k => out (setPc { s with owner := none, ws := s.ws ++ [t] } t (.waiting k)) [ev t "wait(cv)"]
  | .waiting k =>
    if s.owner.isNone then
      let sp := s.ws.contains t
      let s1 := { s with owner := some t, ws := s.ws.erase t }
      match th.ops[k]? with
      | some (.wait d sl) =>
        some { st := afterAcquireWait s1 t k d sl, evs := [ev t (if sp then "wake!(cv)" else "wake(cv)")], spurious := sp }
      | _ => none
    else none
  | .unlock k ret =>
    let nxt : Pc := if k + 1 < th.ops.length then .lock (k + 1) else .finished
    out (setPc { s with owner := none } t nxt) [ev t "unlock(m)", ev t s!"r={ret}"]

def lts : TlxVerif.Sched.LTS State where
  nthreads := fun s => s.thr.length
  unfinished := unfinished
  enabled := enabled
  spurCand := spurCand
  step := step

end TlxVerif.C11.Sem
