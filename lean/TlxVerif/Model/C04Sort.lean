/-
C04 model, part 3: the functional layer of pS5 (tlx/sort/strings/parallel_sample_sort.hpp).

What is transliterated: the decision structure of `PS5Context::enqueue` (big step vs
small-sort job), `PS5BigSortStep` (classify, buckets, recursion depth per bucket, equal
buckets that are finished, single-string buckets), `PS5SmallsortJob` (`sort_sample_sort`
with its nested steps, `sort_mkqs_cache` with the three-way split, `insertion_sort_cache`),
and the LCP passes (`ps5_sample_sort_lcp`, `MKQSStep::calculate_lcp`, the group borders of
`insertion_sort_cache`, `fill_lcp`).  What is abstracted, because the answer (string
order and LCP array) does not depend on it and the theorems quantify over it:
  * the random sample (`sampler`), the pivot choice (`pivot`), the big/small decision of
    `enqueue` (`isBig`, which covers every `sequential_threshold()` incl. `enable_rest_size`);
  * the order of string objects inside a bucket / partition (the C++ moves pointers in
    place; here buckets are stable filters);
  * the order in which sub-ranges are processed (jobs, work sharing): the recursion below
    handles buckets left to right; `Props/C04` shows the result of a bucket depends only
    on the bucket, hence any order gives the same arrays;
  * `insertion_sort(strptr, depth, 0)` is the transliteration of property C03
    (`C03.insertionSort`, LCP overload; `insSort` below adapts the result format).
A result is the sorted string list and an LCP list of the same length whose entry 0 is
the slot the sorter of this range does not write (0 here).
-/
import TlxVerif.Model.C04Classify
import TlxVerif.Model.C03Insertion
namespace TlxVerif.C04

structure Params where
  treebits : Nat
  smallsort : Nat      -- smallsort_threshold
  inssort : Nat        -- inssort_threshold
  useCalc : Bool := true  -- classifier with index calculation (default) or explicit splitter array
  deriving Repr

structure Env where
  p : Params
  /-- `enqueue`: `strptr.size() > sequential_threshold()` -/
  isBig : Nat → Bool
  /-- `rng() % n` for each of the `2 * num_splitters` samples -/
  sampler : Nat → Nat → List Nat
  /-- index of the pivot among the `n` cached keys -/
  pivot : List Key → Nat

structure Res where
  out : List Str
  lcp : List Nat
  deriving Repr

inductive Err | oob | fuel | internal
  deriving Repr, DecidableEq

abbrev M := Except Err

def liftO {α} (e : Err) : Option α → M α
  | some a => .ok a
  | none => .error e

def keysOf (strs : List Str) (depth : Nat) : M (List Key) :=
  strs.mapM fun s => liftO .oob (getKey? s depth)

/-- insertion into a list sorted by `strLe` (after equal elements: stable) -/
def insertStr (s : Str) : List Str → List Str
  | [] => [s]
  | t :: ts => if strLe t s then t :: insertStr s ts else s :: t :: ts

def lcpsOf : List Str → List Nat
  | [] => []
  | s :: rest => 0 :: (List.zipWith (fun a b => lcpT (lcp a b)) (s :: rest) rest)

/-- specification of `insertion_sort(strptr, depth, 0)` (property C03) -/
def baseSort (strs : List Str) : Res :=
  let out := strs.foldl (fun acc s => insertStr s acc) []
  { out := out, lcp := lcpsOf out }

/-- `insertion_sort(strptr, depth, memory = 0)` of tlx/sort/strings/insertion_sort.hpp: the model of
property C03 (LCP overload) on an LCP range whose slots hold 0 -/
def insSort (depth : Nat) (strs : List Str) : Res :=
  let r := C03.insertionSort (fun s : Str => s) true depth strs (List.replicate strs.length 0)
  -- the C03 model keeps LCP values as naturals; the array it writes is `LcpType*`
  { out := r.1, lcp := r.2.map lcpT }

/-- `fill_lcp(v)`: entries 1.. of the range -/
def fillLcp (n v : Nat) : List Nat :=
  match n with
  | 0 => []
  | k + 1 => 0 :: List.replicate k (lcpT v)

/-- the finished range of `n` equal strings -/
def doneRes (strs : List Str) (v : Nat) : Res := { out := strs, lcp := fillLcp strs.length v }

def Res.append (a b : Res) : Res := { out := a.out ++ b.out, lcp := a.lcp ++ b.lcp }

/-- `set_lcp(i, v)`: `lcp_[i] = v` with `LcpType* lcp_` -/
def setLcp (l : List Nat) (i v : Nat) : List Nat := l.set i (lcpT v)

/-- state of `ps5_sample_sort_lcp` while walking over the buckets -/
structure LcpWalk where
  prev : Option Key
  lcp : List Nat

/-- One bucket `b` = `[lo, hi)` of `ps5_sample_sort_lcp`.  Odd buckets take the splitter
as key of all their strings, even buckets read the first / last string of the bucket. -/
def lcpPassBucket (c : Classifier) (useCalc : Bool) (out : List Str) (depth : Nat)
    (w : LcpWalk) (b lo hi : Nat) : M LcpWalk := do
  if lo = hi then pure w else
  let keyAt (i : Nat) : M Key := do
    let s ← liftO .oob out[i]?
    liftO .oob (getKey? s depth)
  let spl : M Key := liftO .oob (if useCalc then c.getSplitterCalc (b / 2) else c.getSplitterArr (b / 2))
  let thiskey ← if b % 2 = 1 then spl else keyAt lo
  let lastkey ← if b % 2 = 1 then spl else keyAt (hi - 1)
  match w.prev with
  | none => pure { prev := some lastkey, lcp := w.lcp }
  | some pk => pure { prev := some lastkey, lcp := setLcp w.lcp lo (depth + lcpKeyType pk thiskey) }

/-- `ps5_sample_sort_lcp<bktnum>(ctx, classifier, strptr, depth, bkt)` on the sorted range -/
def lcpPassGo (c : Classifier) (useCalc : Bool) (out : List Str) (depth : Nat) :
    LcpWalk → Nat → List Nat → M LcpWalk
  | w, b, lo :: hi :: rest => do
    let w ← lcpPassBucket c useCalc out depth w b lo hi
    lcpPassGo c useCalc out depth w (b + 1) (hi :: rest)
  | w, _, _ => pure w

def lcpPass (c : Classifier) (useCalc : Bool) (out : List Str) (lcps : List Nat) (depth : Nat)
    (bounds : List Nat) : M (List Nat) := do
  let w ← lcpPassGo c useCalc out depth { prev := none, lcp := lcps } 0 bounds
  pure w.lcp

/-- exclusive prefix sums `bkt[0..bktnum]` of the bucket sizes -/
def boundsOf (sizes : List Nat) : List Nat :=
  (sizes.foldl (fun (acc : List Nat × Nat) s => (acc.1 ++ [acc.2 + s], acc.2 + s)) ([0], 0)).1

/-- `if (start != 0) set_lcp(start, depth + lcpKeyType(cache[start - 1], cache[start]))` for the group
that starts behind a group of key `prev` -/
def withHead (prev : Option Key) (depth : Nat) (k : Key) (inner : Res) : Res :=
  match prev with
  | some pk => { inner with lcp := setLcp inner.lcp 0 (depth + lcpKeyType pk k) }
  | none => inner

/-- the groups of equal cached keys of `insertion_sort_cache<false>` after the strings were
sorted by their cached keys: LCP between groups from the two keys, inside a group a deeper
insertion sort (`depth + 8`) or, when the key contains the terminator, `fill_lcp` -/
def insGroups (depth : Nat) (prev : Option Key) : Nat → List (Str × Key) → M Res
  | 0, _ => .error .fuel
  | _, [] => pure { out := [], lcp := [] }
  | g + 1, (s, k) :: rest => do
    let grp := (s, k) :: rest.takeWhile (·.2 = k)
    let after := rest.dropWhile (·.2 = k)
    let inner : Res :=
      if grp.length > 1 then
        if lowByte k ≠ 0 then insSort (depth + 8) (grp.map (·.1))      -- insertion_sort(sub, depth + 8)
        else doneRes (grp.map (·.1)) (depth + lcpKeyDepth k)
      else { out := [s], lcp := [0] }
    let r ← insGroups depth (some k) g after
    pure ((withHead prev depth k inner).append r)

inductive Mode
  | enq          -- PS5Context::enqueue
  | big          -- PS5BigSortStep
  | seqss        -- SeqSampleSortStep on the stack of PS5SmallsortJob::sort_sample_sort
  | mkqsTop      -- sort_mkqs_cache (entry: insertion sort below inssort_threshold)
  | mkqs         -- one MKQSStep
  | inscache     -- insertion_sort_cache<false>
  deriving Repr, DecidableEq

/-- stable split of `strs` into the `bktnum` buckets of their ids -/
def bucketsOf (strs : List Str) (ids : List Nat) (bktnum : Nat) : List (List Str) :=
  (List.range bktnum).map fun b => ((strs.zip ids).filter fun p => p.2 = b).map (·.1)

/-- the recursive calls a step makes (`rec mode strs depth`) -/
abbrev Rec := Mode → List Str → Nat → M Res

/-- what a sample sort step does with bucket `i` (the loop bodies of `distribute_finished` for
`mode = .big`, of `sort_sample_sort` for `mode = .seqss`) -/
def bucketBody (env : Env) (rec : Rec) (mode : Mode) (c : Classifier) (depth bktnum : Nat)
    (bi : List Str × Nat) : M Res := do
  let bk := bi.1
  let i := bi.2
  let sz := bk.length
  let slcp := (c.slcp[i / 2]?).getD 0
  if sz = 0 then pure ({ out := [], lcp := [] } : Res)
  else if i % 2 = 0 then
    -- less-than bucket: common prefix grows by the splitter lcp
    let d := if i = bktnum - 1 ∧ mode = .big then depth else depth + (slcp % 128)
    if mode = .big then
      if sz = 1 then pure ({ out := bk, lcp := [0] } : Res)
      else rec .enq bk d
    else if sz < env.p.smallsort then rec .mkqsTop bk d
    else rec .seqss bk d
  else do
    -- equal bucket
    let spl ← liftO .oob (if env.p.useCalc then c.getSplitterCalc (i / 2) else c.getSplitterArr (i / 2))
    if mode = .big ∧ sz = 1 then pure ({ out := bk, lcp := [0] } : Res)
    else if slcp ≥ 128 then pure (doneRes bk (depth + lcpKeyDepth spl))
    else if mode = .big then rec .enq bk (depth + 8)
    else if sz < env.p.smallsort then rec .mkqsTop bk (depth + 8)
    else rec .seqss bk (depth + 8)

/-- one sample sort step: `PS5BigSortStep` (sample, count, distribute, sub-steps, LCP pass) resp.
`SeqSampleSortStep` -/
def sampleBody (env : Env) (rec : Rec) (mode : Mode) (strs : List Str) (depth : Nat) : M Res := do
  let n := strs.length
  let tb := env.p.treebits
  let ns := numSplitters tb
  let bktnum := 2 * ns + 1
  let keys ← keysOf strs depth
  -- samples[i] = get_key_at(strset, rng() % n, depth); std::sort(samples)
  let samples ← (env.sampler n (2 * ns)).mapM fun i => liftO .oob keys[i]?
  let samples := (samples.mergeSort (fun a b => a ≤ b)).toArray
  let c ← liftO .oob (build tb samples)
  -- `std::uint16_t* bktcache`
  let ids ← keys.mapM fun k => liftO .oob ((c.findBkt env.p.useCalc k).map u16)
  let bkts := bucketsOf strs ids bktnum
  let rs ← bkts.zipIdx.mapM (bucketBody env rec mode c depth bktnum)
  let out := (rs.map (·.out)).flatten
  let lcps := (rs.map (·.lcp)).flatten
  let bounds := boundsOf (bkts.map List.length)
  let lcps ← lcpPass c env.p.useCalc out lcps depth bounds
  pure { out := out, lcp := lcps }

/-- `MKQSStep::calculate_lcp` on the concatenated `<`, `=`, `>` parts -/
def mkqsLcp (depth : Nat) (pivot maxLt minGt : Key) (nlt neq ngt : Nat) (lcps : List Nat) : List Nat :=
  -- `std::uint8_t lcp_lt_, lcp_gt_` hold the key-relative values; `depth_` is added in `size_t`
  let lcp_lt := u8 (lcpKeyType maxLt pivot)
  let lcp_gt := u8 (lcpKeyType pivot minGt)
  let l1 := if nlt > 0 then setLcp lcps nlt (depth + lcp_lt) else lcps
  if ngt > 0 then setLcp l1 (nlt + neq) (depth + lcp_gt) else l1

/-- the `=` part of an MKQS step: finished when the pivot key contains the terminator, otherwise
sorted deeper (`insertion_sort_cache<true>` = `insertion_sort` resp. a new `MKQSStep`) -/
def mkqsEq (env : Env) (rec : Rec) (eq : List Str) (depth : Nat) (pivot : Key) : M Res :=
  -- `std::uint8_t lcp_eq_ = lcpKeyDepth(pivot)`; `fill_lcp(ms.depth_ + ms.lcp_eq_)`
  if lowByte pivot = 0 then pure (doneRes eq (depth + u8 (lcpKeyDepth pivot)))
  else if eq.length < env.p.inssort then pure (insSort (depth + 8) eq)
  else rec .mkqs eq (depth + 8)

/-- the `<` / `>` part of an MKQS step -/
def mkqsSub (env : Env) (rec : Rec) (part : List Str) (depth : Nat) : M Res :=
  if part.length = 0 then pure { out := [], lcp := [] }
  else if part.length < env.p.inssort then rec .inscache part depth
  else rec .mkqs part depth

/-- one `MKQSStep` with the handling of its three parts in `sort_mkqs_cache` -/
def mkqsBody (env : Env) (rec : Rec) (strs : List Str) (depth : Nat) : M Res := do
  let n := strs.length
  if n = 0 then .error .internal else
  let keys ← keysOf strs depth
  let pivot ← liftO .internal keys[env.pivot keys % n]?
  let sk := strs.zip keys
  let lt := (sk.filter fun p => p.2 < pivot).map (·.1)
  let eq := (sk.filter fun p => p.2 = pivot).map (·.1)
  let gt := (sk.filter fun p => pivot < p.2).map (·.1)
  let ltKeys := keys.filter (· < pivot)
  let gtKeys := keys.filter (pivot < ·)
  let rlt ← mkqsSub env rec lt depth
  let req ← mkqsEq env rec eq depth pivot
  let rgt ← mkqsSub env rec gt depth
  let r := (rlt.append req).append rgt
  let maxLt := ltKeys.foldl (fun a b => if a < b then b else a) 0
  let minGt := gtKeys.foldl (fun a b => if b < a then b else a) (BitVec.allOnes 64)
  pure { out := r.out, lcp := mkqsLcp depth pivot maxLt minGt lt.length eq.length gt.length r.lcp }

/-- `insertion_sort_cache<false>`: sort by the cached keys, then the groups of equal keys -/
def insCacheBody (strs : List Str) (depth : Nat) : M Res := do
  let n := strs.length
  if n ≤ 1 then pure { out := strs, lcp := fillLcp n 0 } else
  let keys ← keysOf strs depth
  let sk := (strs.zip keys).mergeSort (fun a b => a.2 ≤ b.2)
  insGroups depth none (n + 1) sk

def sortM (env : Env) : Nat → Mode → List Str → Nat → M Res
  | 0, _, _, _ => .error .fuel
  | fuel + 1, mode, strs, depth =>
    let n := strs.length
    match mode with
    | .enq =>
      if env.isBig n then sortM env fuel .big strs depth
      else if n ≥ env.p.smallsort then sortM env fuel .seqss strs depth
      else sortM env fuel .mkqsTop strs depth
    | .big => sampleBody env (sortM env fuel) .big strs depth
    | .seqss => sampleBody env (sortM env fuel) .seqss strs depth
    | .mkqsTop =>
      if n < env.p.inssort then pure (insSort depth strs)
      else sortM env fuel .mkqs strs depth
    | .mkqs => mkqsBody env (sortM env fuel) strs depth
    | .inscache => insCacheBody strs depth

/-- the characters (and terminators) of a range behind a common prefix of length `d` -/
def msize (strs : List Str) (d : Nat) : Nat := (strs.map (fun s => s.length + 1 - d)).sum

/-- fuel that suffices for a whole sort (`Props/C04.sortAll_terminates`): three units per character
and per string, plus three -/
def fuelFor (strs : List Str) : Nat := 3 * msize strs 0 + 3

/-- `parallel_sample_sort_base`: `ctx.enqueue(nullptr, strptr, 0)` -/
def sortAll (env : Env) (fuel : Nat) (strs : List Str) : M Res := sortM env fuel .enq strs 0

end TlxVerif.C04
