/-
Deterministic scheduler for labelled transition systems — the Lean mirror of
`harness/detsched/sched.hpp`.  Given the same draws (explicit list first, then
splitmix64 of the seed) it takes the same scheduling decisions as the C++
scheduler takes for the real code, so that the event trace of a model run can be
compared with the event trace of the implementation token by token.

Only used by the drivers (executable correspondence); the theorems in
`Props/C10.lean` / `Props/C11.lean` quantify over *all* schedules directly on the
step functions and do not depend on this file.
-/
namespace TlxVerif.Sched

/-- result of one thread step -/
structure StepOut (σ : Type) where
  st : σ
  evs : List String
  /-- `some i` when the step consumed a draw (notify_one on a non-empty wait set) and woke waiter `i` -/
  drawIdx : Option Nat := none
  /-- size of the wait set the draw chose from -/
  drawWidth : Nat := 0
  spurious : Bool := false

structure LTS (σ : Type) where
  nthreads : σ → Nat
  /-- thread exists and has not finished -/
  unfinished : σ → Nat → Bool
  /-- pending operation of the thread is enabled (no spurious wake-up needed) -/
  enabled : σ → Nat → Bool
  /-- thread sits in a wait set and could take a spurious wake-up (mutex free) -/
  spurCand : σ → Nat → Bool
  /-- perform the pending operation; second argument of the step: a raw draw for notify_one -/
  step : σ → Nat → Nat → Option (StepOut σ)

structure Draws where
  sched : List Nat
  rng : UInt64
  /-- draws beyond `sched` take alternative 0 (systematic exploration) instead of the PRNG -/
  tailZero : Bool := false

def Draws.next (d : Draws) : Nat × Draws :=
  match d.sched with
  | c :: rest => (c, { d with sched := rest })
  | [] =>
    if d.tailZero then (255, d) else
    let r := d.rng + 0x9e3779b97f4a7c15
    let z := r
    let z := (z ^^^ (z >>> 30)) * 0xbf58476d1ce4e5b9
    let z := (z ^^^ (z >>> 27)) * 0x94d049bb133111eb
    let z := z ^^^ (z >>> 31)
    (z.toNat, { d with rng := r })

inductive End | done | rest | limit
  deriving DecidableEq, Repr

def End.show : End → String
  | .done => "done" | .rest => "rest" | .limit => "limit"

structure Params where
  seed : Nat := 1
  sched : List Nat := []
  stick : Nat := 0
  spur : Nat := 0
  maxSteps : Nat := 4000
  maxRuns : Nat := 2000
  tailZero : Bool := false

structure Result (σ : Type) where
  fin : End
  st : σ
  trace : Array String
  resolved : Array Nat
  /-- number of alternatives at each draw -/
  widths : Array Nat
  steps : Nat

structure RunSt (σ : Type) where
  st : σ
  draws : Draws
  trace : Array String := #[]
  resolved : Array Nat := #[]
  widths : Array Nat := #[]
  steps : Nat := 0
  spurLeft : Nat
  last : Option Nat := none

def idxOf (l : List Nat) (x : Nat) : Nat :=
  match l.findIdx? (· == x) with
  | some i => i
  | none => 0

/-- one scheduling decision + one step; `none` = the run is over with the given verdict -/
def round {σ : Type} (L : LTS σ) (p : Params) (r : RunSt σ) : Except (End) (RunSt σ) :=
  if r.steps ≥ p.maxSteps then .error .limit else
  let all := List.range (L.nthreads r.st)
  let unf := all.filter (L.unfinished r.st)
  let opts := unf.filter (L.enabled r.st)
  if unf.isEmpty then .error .done else
  if opts.isEmpty then .error .rest else
  let lastEnabled := match r.last with
    | some t => L.unfinished r.st t && L.enabled r.st t
    | none => false
  let opts := if r.spurLeft > 0 then opts ++ unf.filter (fun t => !L.enabled r.st t && L.spurCand r.st t) else opts
  let (c, d1) := r.draws.next
  let (next, idx) :=
    if lastEnabled && c % 256 < p.stick then
      let t := r.last.getD 0
      (t, idxOf opts t)
    else
      let i := (c / 256) % opts.length
      (opts.getD i 0, i)
  let resolved := r.resolved.push (256 * idx + 255)
  let widths := r.widths.push opts.length
  let (c2, d2) := d1.next
  match L.step r.st next c2 with
  | none => .error .rest   -- cannot happen for an enabled thread; surfaces as a trace mismatch
  | some out =>
    let (draws, resolved, widths) := match out.drawIdx with
      | some i => (d2, resolved.push (256 * i + 255), widths.push out.drawWidth)
      | none => (d1, resolved, widths)
    let spurLeft := if out.spurious && r.spurLeft > 0 then r.spurLeft - 1 else r.spurLeft
    .ok { st := out.st, draws := draws, trace := r.trace ++ out.evs.toArray, resolved := resolved, widths := widths,
          steps := r.steps + 1, spurLeft := spurLeft,
          last := if L.unfinished out.st next then some next else none }

def runLoop {σ : Type} (L : LTS σ) (p : Params) : Nat → RunSt σ → Result σ
  | 0, r => { fin := .limit, st := r.st, trace := r.trace, resolved := r.resolved, widths := r.widths, steps := r.steps }
  | fuel + 1, r =>
    match round L p r with
    | .error e => { fin := e, st := r.st, trace := r.trace, resolved := r.resolved, widths := r.widths, steps := r.steps }
    | .ok r' => runLoop L p fuel r'

def run {σ : Type} (L : LTS σ) (p : Params) (init : σ) : Result σ :=
  runLoop L p (p.maxSteps + 2)
    { st := init, draws := { sched := p.sched, rng := UInt64.ofNat p.seed, tailZero := p.tailZero }, spurLeft := p.spur }

/-- `key=123` → 123 -/
def keyNat (key : String) (tok : String) : Option Nat :=
  match tok.splitOn "=" with
  | [k, v] => if k = key then v.toNat? else none
  | _ => none

/-- parse the parameters of a `run` line (tokens after `run`) -/
def parseParams (ts : List String) : Option Params :=
  ts.foldlM (fun (p : Params) tok =>
    match keyNat "seed" tok, keyNat "stick" tok, keyNat "spur" tok, keyNat "max" tok, keyNat "runs" tok with
    | some v, _, _, _, _ => some { p with seed := v }
    | _, some v, _, _, _ => if v ≤ 255 then some { p with stick := v } else none
    | _, _, some v, _, _ => some { p with spur := v }
    | _, _, _, some v, _ => if v ≤ 100000 then some { p with maxSteps := v } else none
    | _, _, _, _, some v => if v ≤ 10000000 then some { p with maxRuns := v } else none
    | _, _, _, _, _ =>
      match tok.splitOn "=" with
      | ["sched", "-"] => some p
      | ["sched", v] => (v.splitOn ",").mapM String.toNat? |>.map fun l => { p with sched := l }
      | _ => none) {}

/-- next schedule prefix in depth-first order: bump the deepest choice with an untried alternative -/
def nextPrefix (path widths : Array Nat) : Option (List Nat) :=
  let rec go (i : Nat) : Option (List Nat) :=
    match i with
    | 0 => none
    | j + 1 =>
      let idx := (path.getD j 255 - 255) / 256
      if idx + 1 < widths.getD j 0 then
        some ((path.toList.take j) ++ [path.getD j 255 + 256])
      else go j
  go path.size

/-- systematic depth-first exploration of all schedules (mirror of detsched::explore): returns (runs, complete) -/
def explore {σ : Type} (L : LTS σ) (p : Params) (init : σ) : Nat × Bool :=
  let rec loop (fuel : Nat) (runs : Nat) (pre : List Nat) : Nat × Bool :=
    match fuel with
    | 0 => (runs, false)
    | fuel + 1 =>
      let r := run L { p with sched := pre, tailZero := true, stick := 0 } init
      let runs := runs + 1
      match nextPrefix r.resolved r.widths with
      | none => (runs, true)
      | some pre' => if runs ≥ p.maxRuns then (runs, false) else loop fuel runs pre'
  loop (p.maxRuns + 1) 0 []

def showTrace (t : Array String) : String :=
  t.foldl (fun acc e => acc ++ " " ++ e) ""

end TlxVerif.Sched
