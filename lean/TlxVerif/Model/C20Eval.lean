/-
C20 — dispatch of the protocol's function names to the model, plus the domain rule shared
with harness/c20.cpp (calls outside the documented domain, or whose signed result would not be
representable, are not executed: answered `-`).
-/
import TlxVerif.Model.C20Bits
namespace TlxVerif.C20

inductive R where
  | skip            -- outside the domain: not executed
  | val (v : Int)   -- returned value (mathematical integer)
  | fuel            -- model loop ran out of fuel (never happens inside the domain; see Props)

def R.ofNat : Option Nat → R
  | some n => .val n
  | none => .fuel

def R.ofBV (sg : Bool) : Option (BitVec w) → R
  | some x => .val (TlxVerif.C20.val sg x)
  | none => .fuel

/-- least `q` with `q * k ≥ n` -/
def ceilDiv (n k : Int) : Int := if (n / k) * k < n then n / k + 1 else n / k

/-- `some r` when `fn` exists for the type `(w, sg)`; `pa`,`pb` are the argument bit patterns -/
def evalFn (fn : String) (w : Nat) (sg : Bool) (pa pb : Nat) : Option R :=
  let a : BitVec w := BitVec.ofNat w pa
  let b : BitVec w := BitVec.ofNat w pb
  let i : BitVec 32 := BitVec.ofNat 32 pb
  let A := val sg a
  let B := val sg b
  let wide := w ≥ 32
  let tmax : Int := 2 ^ (if sg then w - 1 else w) - 1
  match fn with
  | "clz" => if wide then some (.val (clzOverload a)) else none
  | "clz_t" => some (R.ofNat (clzTemplate a))
  | "ctz" => if wide then some (.val (ctzOverload a)) else none
  | "ctz_t" => some (R.ofNat (ctzTemplate sg a))
  | "ffs" => if wide then some (.val (ffsOverload a)) else none
  | "ffs_t" => some (R.ofNat (ffsTemplate sg a))
  | "popcount" => if wide then some (.val (popcountOverload a)) else none
  | "popcount_g" =>
    if sg then none else
    match w with
    | 8 => some (.val (popcountGeneric8 (BitVec.ofNat 8 pa)))
    | 16 => some (.val (popcountGeneric16 (BitVec.ofNat 16 pa)))
    | 32 => some (.val (popcountGeneric32 (BitVec.ofNat 32 pa)))
    | 64 => some (.val (popcountGeneric64 (BitVec.ofNat 64 pa)))
    | _ => none
  | "log2f" => if !wide then none else if A < 0 then some .skip else some (.val (log2FloorOverload a))
  | "log2f_t" => if A < 0 then some .skip else some (R.ofNat (log2FloorTemplate sg a))
  | "log2c" => if !wide then none else if A < 0 then some .skip else some (.val (log2CeilOverload sg a))
  | "ispow2" => if wide then some (.val (if isPow2Template sg a then 1 else 0)) else none
  | "ispow2_t" => some (.val (if isPow2Template sg a then 1 else 0))
  | "rup2" | "rup2_t" =>
    if fn = "rup2" && !wide then none
    else if A < 0 || (sg && A > 2 ^ (w - 2)) then some .skip
    else some (R.ofBV sg (roundUpPow2Template sg a))
  | "rdown2" =>
    if !wide then none else if A < 0 then some .skip
    else some (R.ofBV sg (roundDownPow2Template sg a))
  | "bswap" => if sg || w < 16 then none else some (.val (specBswap a).toNat)
  | "bswap_g" =>
    if sg then none else
    match w with
    | 16 => some (.val (bswap16Generic (BitVec.ofNat 16 pa)).toNat)
    | 32 => some (.val (bswap32Generic (BitVec.ofNat 32 pa)).toNat)
    | 64 => some (.val (bswap64Generic (BitVec.ofNat 64 pa)).toNat)
    | _ => none
  | "rol" => if sg || !wide then none else some (.val (specRol a i).toNat)
  | "rol_g" => if sg || !wide then none else some (.val (rolGeneric a i).toNat)
  | "ror" => if sg || !wide then none else some (.val (specRor a i).toNat)
  | "ror_g" => if sg || !wide then none else some (.val (rorGeneric a i).toNat)
  | "divceil" | "roundup" =>
    if A < 0 || B ≤ 0 then some .skip else
    let want := if fn = "divceil" then ceilDiv A B else ceilDiv A B * B
    let rs := promSg w sg
    let rmax : Int := 2 ^ (if rs then promW w - 1 else promW w) - 1
    if rs && want > rmax then some .skip
    else some (.val (val rs (if fn = "divceil" then divCeil sg a b else roundUp sg a b)))
  | "absdiff" =>
    if sg && (if A > B then A - B else B - A) > tmax then some .skip
    else some (.val (val sg (absDiff sg a b)))
  | "sgn" => some (.val (sgn sg a))
  | _ => none

/-- S(w): the structured `w`-bit patterns of the `sm` op (same list, same order as
    `structured()` in harness/c20.cpp) -/
def structured (w : Nat) : List Nat :=
  let M := 2 ^ w - 1
  ((List.range w).flatMap fun i => [(2 ^ i + M) % 2 ^ w, 2 ^ i % 2 ^ w, (2 ^ i + 1) % 2 ^ w]) ++
  [3 % 2 ^ w, 5 % 2 ^ w, 7 % 2 ^ w, 10 % 2 ^ w] ++ [M, M - 1, M - 2, M - 3] ++ [M / 3, 2 * (M / 3), M / 5]

/-- mixed-type `div_ceil` / `round_up`: `n : (wn, sn)`, `k : (wk, sk)`; same domain rule as `evalFn` -/
def evalMixed (fn : String) (wn : Nat) (sn : Bool) (wk : Nat) (sk : Bool) (pa pb : Nat) : Option R :=
  let a : BitVec wn := BitVec.ofNat wn pa
  let b : BitVec wk := BitVec.ofNat wk pb
  let A := val sn a
  let B := val sk b
  if fn ≠ "divceil" && fn ≠ "roundup" then none else
  if A < 0 || B ≤ 0 then some .skip else
  let want := if fn = "divceil" then ceilDiv A B else ceilDiv A B * B
  let rs := commSg wn sn wk sk
  let rmax : Int := 2 ^ (if rs then commW wn wk - 1 else commW wn wk) - 1
  if rs && want > rmax then some .skip
  else some (.val (val rs (if fn = "divceil" then divCeilMixed sn a sk b else roundUpMixed sn a sk b)))

def twoArgs (fn : String) : Bool :=
  fn = "rol" || fn = "rol_g" || fn = "ror" || fn = "ror_g" || fn = "divceil" || fn = "roundup" || fn = "absdiff"

end TlxVerif.C20
