/-
C01/C02 — executable model of tlx/container/btree.hpp, part 2: erase_one / erase(key) /
erase(iterator) with the underflow case table, merge_*, shift_left_*, shift_right_*.

Functional reformulation of the pointer code (branch for branch):
* `erase_*_descend(curr, left, right, left_parent, right_parent, parent, parentslot)` becomes
  `eraseDescend target h curr ctx`.  `ctx` carries the left/right neighbour nodes (for their
  `slotuse` and, one level down, their border children) and the *identities* of `left_parent`,
  `right_parent`, `parent`: each of them is null or an ancestor of `curr`, so an identity is the
  ancestor's depth.
* the C++ child frame mutates its siblings and `parent->slotkey[...]` in place.  Here the child
  returns what it decided (`setSep`, `fix`) and the parent frame executes it on `kids[slot-1]`,
  `kids[slot]`, `kids[slot+1]`, `keys[..]` immediately after the recursive call returns, i.e. at the
  same point of the execution.  All rebalancing the C++ can reach from a consistent tree stays
  inside one parent; a decision that would touch a cousin, index −1 or dereference null yields
  `none`.
-/
import TlxVerif.Model.C01Tree
namespace TlxVerif.C01

variable {K V : Type}

/-- which rebalancing the underflowing node asked for -/
inductive Fix where
  | none
  | mergeL      -- merge_*(left, curr, left_parent [, parentslot - 1])
  | mergeR      -- merge_*(curr, right, right_parent [, parentslot])
  | shiftL      -- shift_left_*(curr, right, right_parent, parentslot)
  | shiftR      -- shift_right_*(left, curr, left_parent, parentslot - 1)
  deriving DecidableEq, Repr

/-- arguments of a descent frame besides `curr` -/
structure Ctx (K V : Type) where
  left : Option (BNode K V) := none
  right : Option (BNode K V) := none
  lp : Option Nat := none          -- left_parent (identity = depth of that ancestor)
  rp : Option Nat := none          -- right_parent
  par : Option Nat := none         -- parent; none = nullptr, i.e. curr == root_
  sepAbove : Bool := false         -- parent && parentslot < parent->slotuse
  depth : Nat := 0                 -- depth of curr
  off : Nat := 0                   -- index of curr's first leaf in the leaf chain

/-- what to erase -/
inductive Target (K : Type) where
  | key (k : K)                              -- erase_one(key)
  | iter (leaf slot : Nat) (k : K)           -- erase(iterator): (curr_leaf as chain index, curr_slot), iter.key()

structure EraseOut (K V : Type) where
  node : BNode K V
  setSep : Option K := none        -- parent->slotkey[parentslot] = k, written by the child frame
  lastUp : Option K := none        -- btree_update_lastkey with lastkey
  fix : Fix := .none
  rootDrop : Bool := false         -- root leaf freed, or root inner node replaced by `node` (= childid[0])
  leafFree : Nat := 0
  innerFree : Nat := 0

/-- the five-way case table shared by leaves and inner nodes (`minUse` = leaf_slotmin / inner_slotmin) -/
def decideFix (minUse : Nat) (leftUse rightUse : Option Nat) (lp rp par : Option Nat) : Option Fix :=
  let few (u : Nat) : Bool := u ≤ minUse
  let lNullOrFew := match leftUse with | none => true | some u => few u
  let rNullOrFew := match rightUse with | none => true | some u => few u
  let lFew := match leftUse with | none => false | some u => few u
  let rFew := match rightUse with | none => false | some u => few u
  let lRich := match leftUse with | none => false | some u => !few u
  let rRich := match rightUse with | none => false | some u => !few u
  if lNullOrFew && rNullOrFew then
    some (if lp = par then .mergeL else .mergeR)
  else if lFew && rRich then
    some (if rp = par then .shiftL else .mergeL)
  else if lRich && rFew then
    some (if lp = par then .shiftR else .mergeR)
  else if lp = rp then
    match leftUse, rightUse with
    | some l, some r => some (if l ≤ r then .shiftL else .shiftR)
    | _, _ => none                                  -- left->slotuse / right->slotuse through nullptr
  else
    some (if lp = par then .shiftR else .shiftL)

def BNode.lastKey? : BNode K V → Option K
  | .leaf es => es.getLast?.map Prod.fst
  | .inner .. => none

/-- "if the last key of the leaf was changed, the parent is notified": the pair
(`parent->slotkey[parentslot] = lastkey`, `btree_update_lastkey` with `lastkey`); `none` when the C++ reads
`leaf->key(leaf->slotuse - 1)` of an empty leaf -/
def leafReport (sepAbove : Bool) (erasedLast : Bool) (lastK : Option K) : Option (Option K × Option K) :=
  if erasedLast then
    if sepAbove then
      match lastK with
      | some k => some (some k, none)
      | none => none
    else some (none, lastK)
  else some (none, none)

/-- the underflow handling of a leaf after the entry was removed -/
def finishLeaf (p : Params K) (es' : List (K × V)) (ctx : Ctx K V) (setSep lastUp : Option K) : Option (EraseOut K V) :=
  let isRoot := ctx.par.isNone
  if es'.length < p.leafMin && !(isRoot && es'.length ≥ 1) then
    if ctx.left.isNone && ctx.right.isNone then
      if isRoot then some { node := .leaf es', rootDrop := true, leafFree := 1 }
      else none                                    -- would free root_ while curr is not the root
    else
      match decideFix p.leafMin (ctx.left.map BNode.slotuse) (ctx.right.map BNode.slotuse) ctx.lp ctx.rp ctx.par with
      | none => none
      | some f => some { node := .leaf es', setSep := setSep, lastUp := lastUp, fix := f }
  else some { node := .leaf es', setSep := setSep, lastUp := lastUp }

/-- the leaf part of erase_one_descend / erase_iter_descend once the slot is known -/
def eraseInLeaf (p : Params K) (es : List (K × V)) (slot : Nat) (ctx : Ctx K V) : Option (EraseOut K V) :=
  let es' := es.eraseIdx slot
  match leafReport ctx.sepAbove (slot == es'.length) (es'.getLast?.map Prod.fst) with
  | none => none
  | some (setSep, lastUp) => finishLeaf p es' ctx setSep lastUp

/-- the `while (slot <= inner->slotuse)` search loop of erase_iter_descend; for erase_one it runs once -/
def scanLoop {α : Type} (visit : Nat → Option (Option α)) (stopAfter : Nat → Bool) : Nat → Nat → Option (Option (Nat × α))
  | 0, _ => some none
  | n + 1, slot =>
    match visit slot with
    | none => none
    | some (some a) => some (some (slot, a))
    | some none => if stopAfter slot then some none else scanLoop visit stopAfter n (slot + 1)

/-- result of executing the child's rebalancing request inside the parent -/
structure FixOut (K V : Type) where
  keys : List K
  kids : List (BNode K V)
  fixmerge : Bool := false
  lastUp : Option K := none        -- shift_left_leaf's `btree_update_lastkey` branch

/-- merge_leaves / merge_inner / shift_left_* / shift_right_* applied to `kids[slot]` and a sibling -/
def applyFix (f : Fix) (keys : List K) (kids : List (BNode K V)) (slot : Nat) : Option (FixOut K V) :=
  match f with
  | .none => some { keys := keys, kids := kids }
  | .mergeL =>
    if slot = 0 then none else
    match kids[slot - 1]?, kids[slot]? with
    | some (.leaf l), some (.leaf c) =>
      some { keys := keys, kids := (kids.set (slot - 1) (.leaf (l ++ c))).set slot (.leaf []), fixmerge := true }
    | some (.inner lv lk lc), some (.inner _ ck cc) =>
      match keys[slot - 1]? with
      | none => none
      | some sep =>
        some { keys := keys,
               kids := (kids.set (slot - 1) (.inner lv (lk ++ sep :: ck) (lc ++ cc))).set slot (.inner lv [] []),
               fixmerge := true }
    | _, _ => none
  | .mergeR =>
    match kids[slot]?, kids[slot + 1]? with
    | some (.leaf c), some (.leaf r) =>
      some { keys := keys, kids := (kids.set slot (.leaf (c ++ r))).set (slot + 1) (.leaf []), fixmerge := true }
    | some (.inner lv ck cc), some (.inner _ rk rc) =>
      match keys[slot]? with
      | none => none
      | some sep =>
        some { keys := keys,
               kids := (kids.set slot (.inner lv (ck ++ sep :: rk) (cc ++ rc))).set (slot + 1) (.inner lv [] []),
               fixmerge := true }
    | _, _ => none
  | .shiftL =>
    match kids[slot]?, kids[slot + 1]? with
    | some (.leaf c), some (.leaf r) =>
      let n := (r.length - c.length) / 2
      let c' := c ++ r.take n
      let kids' := (kids.set slot (.leaf c')).set (slot + 1) (.leaf (r.drop n))
      match c'.getLast? with
      | none => none
      | some e =>
        if slot < keys.length then some { keys := keys.set slot e.1, kids := kids' }
        else some { keys := keys, kids := kids', lastUp := some e.1 }
    | some (.inner lv ck cc), some (.inner rv rk rc) =>
      let n := (rk.length - ck.length) / 2
      if n = 0 then none else
      match keys[slot]?, rk[n - 1]? with
      | some sep, some up =>
        some { keys := keys.set slot up,
               kids := (kids.set slot (.inner lv (ck ++ sep :: rk.take (n - 1)) (cc ++ rc.take n))).set (slot + 1)
                          (.inner rv (rk.drop n) (rc.drop n)) }
      | _, _ => none
    | _, _ => none
  | .shiftR =>
    if slot = 0 then none else
    match kids[slot - 1]?, kids[slot]? with
    | some (.leaf l), some (.leaf c) =>
      let n := (l.length - c.length) / 2
      let l' := l.take (l.length - n)
      match l'.getLast? with
      | none => none
      | some e =>
        some { keys := keys.set (slot - 1) e.1,
               kids := (kids.set (slot - 1) (.leaf l')).set slot (.leaf (l.drop (l.length - n) ++ c)) }
    | some (.inner lv lk lc), some (.inner cv ck cc) =>
      let n := (lk.length - ck.length) / 2
      if n = 0 then none else
      match keys[slot - 1]?, lk[lk.length - n]? with
      | some sep, some up =>
        some { keys := keys.set (slot - 1) up,
               kids := (kids.set (slot - 1) (.inner lv (lk.take (lk.length - n)) (lc.take (lk.length - n + 1)))).set slot
                          (.inner cv (lk.drop (lk.length - n + 1) ++ sep :: ck) (lc.drop (lk.length - n + 1) ++ cc)) }
      | _, _ => none
    | _, _ => none

/-- `if (result.has(btree_fixmerge))` in the parent frame: free the emptied child (the one at
`slot`, or the next one when `childid[slot]` is not empty), close the gap in `slotkey`/`childid`,
and on level 1 refresh the separator of the surviving leaf.  Returns the new keys, children and
the number of leaf / inner nodes freed. -/
def fixMerge (l : Nat) (fx : FixOut K V) (slot : Nat) : Option (List K × List (BNode K V) × Nat × Nat) :=
  if fx.fixmerge then
    match fx.kids[slot]? with
    | none => none
    | some c =>
      let s := if c.slotuse ≠ 0 then slot + 1 else slot
      match fx.kids[s]? with
      | none => none
      | some dead =>
        if s = 0 then none else                -- std::copy(slotkey + slot, ..., slotkey + slot - 1) with slot = 0
        let keys3 := fx.keys.eraseIdx (s - 1)
        let kids3 := fx.kids.eraseIdx s
        let (lf, inf) := if dead.isLeaf then (1, 0) else (0, 1)
        if l = 1 then
          match (kids3[s - 1]?).bind BNode.lastKey? with
          | none => none                       -- child->key(child->slotuse - 1) on an empty or non-leaf child
          | some k => some (keys3.set (s - 1) k, kids3, lf, inf)
        else some (keys3, kids3, lf, inf)
  else some (fx.keys, fx.kids, 0, 0)

/-- `myleft`: the left neighbour of child `slot`; for the first child the border child of the left
neighbour of the node itself, `left->childid[left->slotuse - 1]` (sic).
Outer `none`: the C++ would index −1 or treat a leaf as an inner node. -/
def myLeft (kids : List (BNode K V)) (ctx : Ctx K V) (slot : Nat) : Option (Option (BNode K V)) :=
  if slot = 0 then
    match ctx.left with
    | none => some none
    | some (.inner _ lk lc) => if lk.length = 0 then none else some (lc[lk.length - 1]?)
    | some (.leaf _) => none
  else some (kids[slot - 1]?)

/-- `myright`: the right neighbour of child `slot`; for the last child `right->childid[0]` -/
def myRight (keys : List K) (kids : List (BNode K V)) (ctx : Ctx K V) (slot : Nat) : Option (Option (BNode K V)) :=
  if slot = keys.length then
    match ctx.right with
    | none => some none
    | some (.inner _ _ rc) => some (rc[0]?)
    | some (.leaf _) => none
  else some (kids[slot + 1]?)

/-- the arguments of the recursive call for child `slot` of `inner(keys, kids)`: its neighbours
(`myleft`, `myright`) and who their parents are (`myleft_parent`, `myright_parent`) -/
def childCtx (h : Nat) (keys : List K) (kids : List (BNode K V)) (ctx : Ctx K V) (slot : Nat) : Option (Ctx K V) :=
  match myLeft kids ctx slot, myRight keys kids ctx slot with
  | some ml, some mr =>
    some { left := ml, right := mr,
           lp := if slot = 0 then ctx.lp else some ctx.depth,
           rp := if slot = keys.length then ctx.rp else some ctx.depth,
           par := some ctx.depth, sepAbove := slot < keys.length, depth := ctx.depth + 1,
           off := ctx.off + ((kids.take slot).map (leafCount h)).sum }
  | _, _ => none

/-- the underflow handling of an inner node after its child was processed -/
def finishInner (p : Params K) (l : Nat) (keys3 : List K) (kids3 : List (BNode K V)) (ctx : Ctx K V)
    (setSep lastUp : Option K) (leafFree innerFree : Nat) : Option (EraseOut K V) :=
  let isRoot := ctx.par.isNone
  if keys3.length < p.innerMin && !(isRoot && keys3.length ≥ 1) then
    if ctx.left.isNone && ctx.right.isNone then
      if isRoot then
        match kids3[0]? with
        | none => none
        | some c0 => some { node := c0, rootDrop := true, leafFree := leafFree, innerFree := innerFree + 1 }
      else none
    else
      match decideFix p.innerMin (ctx.left.map BNode.slotuse) (ctx.right.map BNode.slotuse) ctx.lp ctx.rp ctx.par with
      | none => none
      | some f =>
        some { node := .inner l keys3 kids3, setSep := setSep, lastUp := lastUp, fix := f,
               leafFree := leafFree, innerFree := innerFree }
  else
    some { node := .inner l keys3 kids3, setSep := setSep, lastUp := lastUp,
           leafFree := leafFree, innerFree := innerFree }

/-- how a changed last key is handed on: written into the parent's separator of this node when there
is one (`parent && parentslot < parent->slotuse`) … -/
def reportSep (sepAbove : Bool) : Option K → Option K
  | none => none
  | some k => if sepAbove then some k else none

/-- … otherwise returned as `btree_update_lastkey` -/
def reportUp (sepAbove : Bool) : Option K → Option K
  | none => none
  | some k => if sepAbove then none else some k

/-- `parent->slotkey[parentslot] = k` as performed by the child frame (when it had a separator) -/
def setSepKey (keys : List K) (slot : Nat) : Option K → List K
  | some k => keys.set slot k
  | none => keys

/-- everything the frame of `inner(l, keys, kids)` does after the recursive call on child `slot`
returned `r`: the child's own effects on this node (`setSep`, rebalancing with a sibling), the
`btree_update_lastkey` / `btree_fixmerge` handling and this node's underflow decision -/
def afterChild (p : Params K) (l : Nat) (keys : List K) (kids : List (BNode K V)) (ctx : Ctx K V) (slot : Nat)
    (r : EraseOut K V) : Option (EraseOut K V) :=
  if r.rootDrop then none else                     -- a non-root child claimed to be the root
  -- effects the child frame had on this node
  let kids1 := kids.set slot r.node
  let keys1 := setSepKey keys slot r.setSep
  match applyFix r.fix keys1 kids1 slot with
  | none => none
  | some fx =>
    -- result.has(btree_update_lastkey); shift_left_leaf's own lastkey wins over the child's
    let lk := fx.lastUp.or r.lastUp
    let setSep : Option K := reportSep ctx.sepAbove lk
    let lastUp : Option K := reportUp ctx.sepAbove lk
    -- result.has(btree_fixmerge)
    match fixMerge l fx slot with
    | none => none
    | some (keys3, kids3, lf, inf) =>
      finishInner p l keys3 kids3 ctx setSep lastUp (r.leafFree + lf) (r.innerFree + inf)

/-- one iteration of the search loop: the recursive call on child `slot` (`rec` = the descent one level down) -/
def visitChild (rec : BNode K V → Ctx K V → Option (Option (EraseOut K V))) (h : Nat) (keys : List K)
    (kids : List (BNode K V)) (ctx : Ctx K V) (slot : Nat) : Option (Option (EraseOut K V)) :=
  match kids[slot]?, childCtx h keys kids ctx slot with
  | some child, some cctx => rec child cctx
  | _, _ => none

/-- how many children the search loop may visit: one for `erase_one`, up to the last child for `erase(iterator)` -/
def scanTries (tg : Target K) (nkeys slot0 : Nat) : Nat :=
  match tg with
  | .key _ => 1
  | .iter .. => nkeys + 1 - slot0

/-- `if (slot < inner->slotuse && key_less(inner->slotkey[slot], iter.key())) return btree_not_found;` -/
def scanStop (p : Params K) (tg : Target K) (keys : List K) (slot : Nat) : Bool :=
  match tg with
  | .key _ => true
  | .iter _ _ k =>
    match keys[slot]? with
    | some sk => p.lt sk k
    | none => false

def Target.tkey : Target K → K
  | .key k => k
  | .iter _ _ k => k

/-- `erase_one_descend` / `erase_iter_descend`; `none` = the C++ would leave defined behaviour,
`some none` = `btree_not_found` -/
def eraseDescend (p : Params K) (tg : Target K) : Nat → BNode K V → Ctx K V → Option (Option (EraseOut K V))
  | _, .leaf es, ctx =>
    match tg with
    | .key k =>
      let slot := findLower p (keysOf es) k
      match es[slot]? with
      | none => some none
      | some e =>
        if !p.eqv k e.1 then some none
        else (eraseInLeaf p es slot ctx).map some
    | .iter li slot _ =>
      if ctx.off ≠ li then some none                  -- leaf != iter.curr_leaf
      else if slot ≥ es.length then some none
      else (eraseInLeaf p es slot ctx).map some
  | 0, .inner .., _ => none
  | h + 1, .inner l keys kids, ctx =>
    let slot0 := findLower p keys tg.tkey
    match scanLoop (visitChild (eraseDescend p tg h) h keys kids ctx) (scanStop p tg keys)
        (scanTries tg keys.length slot0) slot0 with
    | none => none
    | some none => some none
    | some (some (slot, r)) => (afterChild p l keys kids ctx slot r).map some

structure EraseResult (K V : Type) where
  tree : Tree K V
  erased : Bool
  ledger : Ledger

/-- common tail of `erase_one(key)` and `erase(iterator)` -/
def eraseTop (p : Params K) (t : Tree K V) (tg : Target K) : Option (EraseResult K V) :=
  match t.root with
  | none => some { tree := t, erased := false, ledger := {} }
  | some r =>
    match eraseDescend p tg r.level r {} with
    | none => none
    | some none => some { tree := t, erased := false, ledger := {} }
    | some (some o) =>
      if o.fix ≠ .none then none else                  -- the root never asks a parent to rebalance
      let root' : Option (BNode K V) :=
        if o.rootDrop then (if r.isLeaf then none else some o.node) else some o.node
      some { tree := { root := root',
                       stats := { size := t.stats.size - 1, leaves := t.stats.leaves - o.leafFree,
                                  inner := t.stats.inner - o.innerFree } },
             erased := true, ledger := { leafFree := o.leafFree, innerFree := o.innerFree } }

/-- `erase_one(key)` -/
def eraseOne (p : Params K) (t : Tree K V) (k : K) : Option (EraseResult K V) := eraseTop p t (.key k)

/-- `erase(iterator)` for a dereferenceable iterator at `(leaf, slot)` -/
def eraseIter (p : Params K) (t : Tree K V) (leaf slot : Nat) : Option (EraseResult K V) :=
  match deref t.leafChain (leaf, slot) with
  | none => none                                       -- iter.key() reads outside the leaf
  | some e => eraseTop p t (.iter leaf slot e.1)

/-- `erase(key)`: `while (erase_one(key)) { ++c; if (!allow_duplicates) break; }` -/
def eraseAll (p : Params K) (k : K) : Nat → Tree K V → Nat → Ledger → Option (Tree K V × Nat × Ledger)
  | 0, _, _, _ => none
  | fuel + 1, t, c, lg =>
    match eraseOne p t k with
    | none => none
    | some r =>
      if r.erased then
        if !p.dup then some (r.tree, c + 1, lg.add r.ledger)
        else eraseAll p k fuel r.tree (c + 1) (lg.add r.ledger)
      else some (r.tree, c, lg)


/-! ### the hand-written node conditions against the extracted ones (Gen/C01Consts.lean)

The model writes `is_full` / `is_few` / `is_underflow` of leaves and inner nodes inline
(`es.length = p.leafMax` in `leafInsert`, `keys.length = p.innerMax` in `innerAbsorb`,
`u ≤ minUse` in `decideFix`, `… < p.leafMin` / `… < p.innerMin` in `eraseInLeaf` / `finishInner` and in
`verifyNode`), and the bits of `result_flags_t` as independent fields of `EraseOut`
(`btree_not_found`: the `none` answer; `btree_update_lastkey`: `lastKey`; `btree_fixmerge`: `fix`).
These `rfl`/`decide` facts stop the build when the extraction no longer agrees. -/

theorem gen_isFull (s m : Nat) : Gen.leafIsFull s m = decide (s = m) ∧ Gen.innerIsFull s m = decide (s = m) := ⟨rfl, rfl⟩
theorem gen_isFew (s m : Nat) : Gen.leafIsFew s m = decide (s ≤ m) ∧ Gen.innerIsFew s m = decide (s ≤ m) := ⟨rfl, rfl⟩
theorem gen_isUnderflow (s m : Nat) :
    Gen.leafIsUnderflow s m = decide (s < m) ∧ Gen.innerIsUnderflow s m = decide (s < m) := ⟨rfl, rfl⟩
theorem gen_slotmin (m : Nat) : Gen.leafSlotmin m = m / 2 ∧ Gen.innerSlotmin m = m / 2 := ⟨rfl, rfl⟩
/-- `btree_ok` is the empty set of flags, the other three are distinct single bits -/
theorem gen_result_flags :
    Gen.btree_ok = 0 ∧ Gen.btree_not_found = 2 ^ 0 ∧ Gen.btree_update_lastkey = 2 ^ 1 ∧ Gen.btree_fixmerge = 2 ^ 2 := by
  decide

end TlxVerif.C01
