/-
C12 — concurrent model: threads releasing / copying handles to ONE shared object.
Visible (scheduling) steps are the atomic operations on `reference_count_` and the start of
the object's destructor; everything else a thread does is local to its own two handles.
`asserts = true` models a build without NDEBUG: `dec_reference` first loads the count for its
`assert`, and `~ReferenceCounter` loads it once more.
-/
namespace TlxVerif.C12

inductive Micro where
  | inc | dec | load | del | dload
deriving DecidableEq, Repr

structure Thr where
  l0 : Bool              -- local handle L0 points to the shared object
  l1 : Bool
  pend : List Micro      -- visible steps of the operation in progress
  prog : List Char       -- operations still to start
deriving DecidableEq, Repr

/-- visible steps of `dec_reference()` on a non-null handle -/
def decSteps (asserts : Bool) : List Micro := if asserts then [.load, .dec] else [.dec]

/-- start operation `c`: its visible steps and the new local state -/
def expand (asserts : Bool) (l0 l1 : Bool) (c : Char) : List Micro × Bool × Bool :=
  let d := decSteps asserts
  match c with
  | 'c' => (if l0 then .inc :: d else [], l0, l1)                      -- { Ptr tmp(L0); }
  | 'a' => if l0 = l1 then ([], l0, l1)                                -- L1 = L0;
           else ((if l0 then [.inc] else []) ++ (if l1 then d else []), l0, l0)
  | 'b' => if l0 = l1 then ([], l0, l1)                                -- L0 = L1;
           else ((if l1 then [.inc] else []) ++ (if l0 then d else []), l1, l1)
  | 'm' => if l0 = l1 then ([], l0, l1)                                -- L1 = std::move(L0);
           else (if l1 then d else [], false, l0)
  | 'n' => if l0 = l1 then ([], l0, l1)                                -- L0 = std::move(L1);
           else (if l0 then d else [], l1, false)
  | 'r' => (if l1 then d else [], l0, false)                           -- L1.reset();  /  ~L1
  | 'q' => (if l0 then d else [], false, l1)                           -- L0.reset();  /  ~L0
  | 's' => ([], l1, l0)                                                -- L0.swap(L1);
  | 'u' => (if l0 then [.load] else [], l0, l1)                        -- L0.unique();
  | 'v' => (if l1 then [.load] else [], l0, l1)                        -- L1.unique();
  | _ => ([], l0, l1)

/-- start operations until one has a visible step (or the program is over) -/
def settleAux (asserts : Bool) : Bool → Bool → List Char → Thr
  | l0, l1, [] => { l0 := l0, l1 := l1, pend := [], prog := [] }
  | l0, l1, c :: rest =>
    match expand asserts l0 l1 c with
    | ([], l0', l1') => settleAux asserts l0' l1' rest
    | (ms, l0', l1') => { l0 := l0', l1 := l1', pend := ms, prog := rest }

/-- run the thread's local code up to its next visible step -/
def settle (asserts : Bool) (t : Thr) : Thr :=
  if t.pend.isEmpty then settleAux asserts t.l0 t.l1 t.prog else t

structure CSt where
  count : Nat
  destroyed : Nat
  err : Option String
  thr : List Thr
deriving Repr

/-- a thread: L0 = copy of the shared handle, L1 empty; the handles are destroyed (L1 first) at the end -/
def Thr.start (asserts : Bool) (prog : List Char) : Thr :=
  settle asserts { l0 := true, l1 := false, pend := [], prog := prog ++ ['r', 'q'] }

def CSt.start (asserts : Bool) (progs : List (List Char)) : CSt :=
  { count := progs.length, destroyed := 0, err := none, thr := progs.map (Thr.start asserts) }

/-- error flag: the object was touched after its destruction -/
def uaf (s : CSt) (what : String) : CSt :=
  if s.destroyed ≠ 0 then { s with err := some s!"use after free: {what} on the destroyed object" } else s

/-- effect of one visible step `m` (head of the thread's list, `rest` behind it) on the shared
    state; returns the thread's new list of outstanding steps and the event text -/
def microStep (asserts : Bool) (s : CSt) (m : Micro) (rest : List Micro) : CSt × List Micro × String :=
  match m with
  | .inc =>
    let s := uaf s "inc"
    let s := { s with count := s.count + 1 }
    (s, rest, s!"inc={s.count}")
  | .load =>
    let s := uaf s "load"
    (s, rest, s!"load={s.count}")
  | .dec =>
    let s := uaf s "dec"
    if s.count = 0 then
      ({ s with err := some "reference count underflow" }, rest, "dec=underflow")
    else
      let s := { s with count := s.count - 1 }
      -- `if (ptr_->dec_reference()) Deleter()(ptr_);` : the destructor is the next visible step
      let extra := if s.count = 0 then (if asserts then [.del, .dload] else [.del]) else []
      (s, extra ++ rest, s!"dec={s.count}")
  | .del =>
    let s := if s.destroyed ≠ 0 then { s with err := some "double destruction" } else s
    ({ s with destroyed := s.destroyed + 1 }, rest, "del")
  | .dload => (s, rest, s!"load={s.count}")

/-- thread `i` performs its next visible step; returns the event text -/
def cstep (asserts : Bool) (s : CSt) (i : Nat) : Option (CSt × String) :=
  match s.thr[i]? with
  | none => none
  | some t =>
    match t.pend with
    | [] => none
    | m :: rest =>
      let r := microStep asserts s m rest
      some ({ r.1 with thr := r.1.thr.set i (settle asserts { t with pend := r.2.1 }) }, s!"t{i}:{r.2.2}")

/-- indices of the threads parked at a visible step -/
def unfinished (s : CSt) : List Nat :=
  (List.range s.thr.length).filter fun i => match s.thr[i]? with | some t => !t.pend.isEmpty | none => false

/-- the harness' scheduler: k-th decision = `sched[k] mod #unfinished`, round-robin counter afterwards -/
def runSched (asserts : Bool) : Nat → CSt → List Nat → Nat → Nat → List String → CSt × List String × Nat
  | 0, s, _, k, _, ev => (s, ev.reverse, k)
  | fuel + 1, s, sched, k, rr, ev =>
    let u := unfinished s
    if u.isEmpty then (s, ev.reverse, k)
    else
      let (c, sched', rr') := match sched with
        | c :: r => (c, r, rr)
        | [] => (rr, [], rr + 1)
      let i := u[c % u.length]!
      match cstep asserts s i with
      | some (s', e) => runSched asserts fuel s' sched' (k + 1) rr' (e :: ev)
      | none => (s, ev.reverse, k)

end TlxVerif.C12
