/-
C12 — concurrent model: threads releasing / copying / unifying handles to ONE shared object.

Every thread owns three local handles: L0, L1 (`CountingPtr<Base>`) and D (`CountingPtr<Derived>`).
A flag says whether the handle points to the *shared* object; `false` means "something else"
(nullptr or a private copy made by `unify()`; private copies are thread-local, their counters
are never touched by another thread and their operations are not scheduling points — which
private object a handle points to never influences an operation on the shared object).

Visible (scheduling) steps are the atomic operations on the shared object's `reference_count_`,
the start of its destructor, and the start of a copy construction from it (`new Type(*ptr_)` in
`unify()`).  `unify()` is `if (ptr_ && !ptr_->unique()) operator=(CountingPtr(new Type(*ptr_)))`:
the `unique()` load is a *conditional* step (`uload`): only if the loaded count is not 1 do the
copy and the release of the shared object follow, and the handle then points to the private copy.
`asserts = true` models a build without NDEBUG: `dec_reference` first loads the count for its
`assert`, and `~ReferenceCounter` loads it once more.
-/
namespace TlxVerif.C12

/-- the three local handles of a thread -/
inductive Hd where
  | l0 | l1 | d
deriving DecidableEq, Repr

inductive Micro where
  | inc | dec | load | del | dload
  | uload (h : Hd)      -- `ptr_->unique()` inside `h.unify()`; continues only if the count is not 1
  | copy                -- `new Type(*ptr_)`: the copy constructor reads the shared object
deriving DecidableEq, Repr

/-- which local handles point to the shared object -/
structure Fl where
  l0 : Bool
  l1 : Bool
  d : Bool
deriving DecidableEq, Repr

def Fl.get (f : Fl) : Hd → Bool
  | .l0 => f.l0 | .l1 => f.l1 | .d => f.d

def Fl.clear (f : Fl) : Hd → Fl
  | .l0 => { f with l0 := false } | .l1 => { f with l1 := false } | .d => { f with d := false }

structure Thr where
  fl : Fl
  pend : List Micro      -- visible steps of the operation in progress
  prog : List Char       -- operations still to start
deriving DecidableEq, Repr

/-- visible steps of `dec_reference()` on a handle to the shared object -/
def decSteps (asserts : Bool) : List Micro := if asserts then [.load, .dec] else [.dec]

/-- copy assignment `dst = src` (also the converting one): early return on equal pointers,
    `inc_reference(src)`, `dec_reference()` -/
def assignSteps (asserts : Bool) (dst src : Bool) : List Micro :=
  if dst = src then [] else (if src then [.inc] else []) ++ (if dst then decSteps asserts else [])

/-- start operation `c`: its visible steps and the new local state -/
def expand (asserts : Bool) (f : Fl) (c : Char) : List Micro × Fl :=
  let ds := decSteps asserts
  match c with
  | 'c' => (if f.l0 then .inc :: ds else [], f)                               -- { Ptr tmp(L0); }
  | 'a' => (assignSteps asserts f.l1 f.l0, { f with l1 := f.l0 })             -- L1 = L0;
  | 'b' => (assignSteps asserts f.l0 f.l1, { f with l0 := f.l1 })             -- L0 = L1;
  | 'm' => if f.l0 = f.l1 then ([], f)                                        -- L1 = std::move(L0);
           else (if f.l1 then ds else [], { f with l0 := false, l1 := f.l0 })
  | 'n' => if f.l0 = f.l1 then ([], f)                                        -- L0 = std::move(L1);
           else (if f.l0 then ds else [], { f with l0 := f.l1, l1 := false })
  | 'r' => (if f.l1 then ds else [], { f with l1 := false })                  -- L1.reset();  /  ~L1
  | 'q' => (if f.l0 then ds else [], { f with l0 := false })                  -- L0.reset();  /  ~L0
  | 'Q' => (if f.d then ds else [], { f with d := false })                    -- D.reset();   /  ~D
  | 's' => ([], { f with l0 := f.l1, l1 := f.l0 })                            -- L0.swap(L1);
  | 'u' => (if f.l0 then [.load] else [], f)                                  -- L0.unique();
  | 'v' => (if f.l1 then [.load] else [], f)                                  -- L1.unique();
  | 'w' => (if f.d then [.load] else [], f)                                   -- D.unique();
  | 'x' => (if f.l0 then [.uload .l0] else [], f)                             -- L0.unify();
  | 'y' => (if f.l1 then [.uload .l1] else [], f)                             -- L1.unify();
  | 'z' => (if f.d then [.uload .d] else [], f)                               -- D.unify();
  -- converting operations, CountingPtr<Derived> -> CountingPtr<Base>
  | 'C' => (if f.d then .inc :: ds else [], f)                                -- { Ptr tmp(D); }
  | 'K' => (if f.d then ds else [], { f with d := false })                    -- { Ptr tmp(std::move(D)); }
  | 'A' => (assignSteps asserts f.l0 f.d, { f with l0 := f.d })               -- L0 = D;
  | 'B' => (assignSteps asserts f.l1 f.d, { f with l1 := f.d })               -- L1 = D;
  | 'M' => if f.l0 = f.d then ([], f)                                         -- L0 = std::move(D);
           else (if f.l0 then ds else [], { f with l0 := f.d, d := false })
  | _ => ([], f)

/-- start operations until one has a visible step (or the program is over) -/
def settleAux (asserts : Bool) : Fl → List Char → Thr
  | f, [] => { fl := f, pend := [], prog := [] }
  | f, c :: rest =>
    match expand asserts f c with
    | ([], f') => settleAux asserts f' rest
    | (ms, f') => { fl := f', pend := ms, prog := rest }

/-- run the thread's local code up to its next visible step -/
def settle (asserts : Bool) (t : Thr) : Thr :=
  if t.pend.isEmpty then settleAux asserts t.fl t.prog else t

structure CSt where
  count : Nat
  destroyed : Nat
  err : Option String
  thr : List Thr
deriving Repr

/-- a thread: L0 and D = copies of the shared handle, L1 empty; the handles are destroyed at the
    end in the order D, L1, L0 -/
def Thr.start (asserts : Bool) (prog : List Char) : Thr :=
  settle asserts { fl := ⟨true, false, true⟩, pend := [], prog := prog ++ ['Q', 'r', 'q'] }

def CSt.start (asserts : Bool) (progs : List (List Char)) : CSt :=
  { count := 2 * progs.length, destroyed := 0, err := none, thr := progs.map (Thr.start asserts) }

/-- error flag: the object was touched after its destruction -/
def uaf (s : CSt) (what : String) : CSt :=
  if s.destroyed ≠ 0 then { s with err := some s!"use after free: {what} on the destroyed object" } else s

/-- effect of one visible step `m` of thread `t` (head of its list, `rest` behind it) on the
    shared state; returns the thread with its new list of outstanding steps (and local flags)
    and the event text -/
def microStep (asserts : Bool) (s : CSt) (t : Thr) (m : Micro) (rest : List Micro) : CSt × Thr × String :=
  match m with
  | .inc =>
    let s := uaf s "inc"
    let s := { s with count := s.count + 1 }
    (s, { t with pend := rest }, s!"inc={s.count}")
  | .load =>
    let s := uaf s "load"
    (s, { t with pend := rest }, s!"load={s.count}")
  | .uload h =>
    let s := uaf s "load"
    -- `if (ptr_ && !ptr_->unique())`: unique() is `reference_count_ == 1`
    if s.count = 1 then (s, { t with pend := rest }, s!"load={s.count}")
    else
      -- `operator=(CountingPtr(new Type(*ptr_)))`: copy the object, (the new object's counter is
      -- private,) release the shared object; the handle then holds the private copy
      (s, { t with fl := t.fl.clear h, pend := .copy :: decSteps asserts ++ rest }, s!"load={s.count}")
  | .copy =>
    let s := uaf s "copy"
    (s, { t with pend := rest }, "copy")
  | .dec =>
    let s := uaf s "dec"
    if s.count = 0 then
      ({ s with err := some "reference count underflow" }, { t with pend := rest }, "dec=underflow")
    else
      let s := { s with count := s.count - 1 }
      -- `if (ptr_->dec_reference()) Deleter()(ptr_);` : the destructor is the next visible step
      let extra := if s.count = 0 then (if asserts then [.del, .dload] else [.del]) else []
      (s, { t with pend := extra ++ rest }, s!"dec={s.count}")
  | .del =>
    let s := if s.destroyed ≠ 0 then { s with err := some "double destruction" } else s
    ({ s with destroyed := s.destroyed + 1 }, { t with pend := rest }, "del")
  | .dload => (s, { t with pend := rest }, s!"load={s.count}")

/-- thread `i` performs its next visible step; returns the event text -/
def cstep (asserts : Bool) (s : CSt) (i : Nat) : Option (CSt × String) :=
  match s.thr[i]? with
  | none => none
  | some t =>
    match t.pend with
    | [] => none
    | m :: rest =>
      let r := microStep asserts s t m rest
      some ({ r.1 with thr := r.1.thr.set i (settle asserts r.2.1) }, s!"t{i}:{r.2.2}")

/-- indices of the threads parked at a visible step -/
def unfinished (s : CSt) : List Nat :=
  (List.range s.thr.length).filter fun i => match s.thr[i]? with | some t => !t.pend.isEmpty | none => false

/-- the harness' scheduler: k-th decision = `sched[k] mod #unfinished`, round-robin counter afterwards -/
def runSched (asserts : Bool) : Nat → CSt → List Nat → Nat → Nat → List String → CSt × List String × Nat
  | 0, s, _, k, _, ev => (s, ev.reverse, k)
  | fuel + 1, s, sched, k, rr, ev =>
    let u := unfinished s
    if u.isEmpty then (s, ev.reverse, k)
    else
      let (c, sched', rr') := match sched with
        | c :: r => (c, r, rr)
        | [] => (rr, [], rr + 1)
      let i := u[c % u.length]!
      match cstep asserts s i with
      | some (s', e) => runSched asserts fuel s' sched' (k + 1) rr' (e :: ev)
      | none => (s, ev.reverse, k)

end TlxVerif.C12
