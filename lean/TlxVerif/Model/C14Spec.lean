import TlxVerif.Model.C14Bytes
/-!
C14 — specifications, transcribed from the standards (no reference to tlx):

* MD5: RFC 1321 §3 (padding §3.1/3.2, initial values §3.3, four rounds with
  `F G H I`, `T[i] = ⌊2^32·|sin i|⌋`, the message-word orders and shift amounts of §3.4),
* SHA-1, SHA-256, SHA-512: FIPS 180-4 (§5.1 padding, §5.3 initial hash values, §4.1
  functions, §4.2 constants, §6.1/§6.2/§6.4 computation),
* SipHash-2-4: Aumasson & Bernstein, "SipHash: a fast short-input PRF", §2.

Each `hash` is executed by the driver and compared with Python `hashlib` / an independent
SipHash on every run (the transcription is part of the trusted base, this is its test).
-/
namespace TlxVerif.C14.Spec

open TlxVerif.C14

/-- Merkle–Damgård padding in bytes: the bit `1` (byte 0x80), then the smallest number `k ≥ 0`
    of zero bytes such that the length becomes ≡ `B - L` (mod `B`), then the message
    length in bits as an `L`-byte integer (`enc`).  (MD5/SHA-1/SHA-256: B = 64, L = 8;
    SHA-512: B = 128, L = 16.) -/
def padZeros (B L len : Nat) : Nat := (B + (B - L) - (len + 1) % B) % B

def pad (B L : Nat) (enc : Nat → Bytes) (msg : Bytes) : Bytes :=
  msg ++ [0x80#8] ++ List.replicate (padZeros B L msg.length) 0#8 ++ enc (8 * msg.length)

/-- hexadecimal form of a digest: per byte the two digits of its value, high nibble first -/
def hex (digits : String) (bs : Bytes) : String :=
  String.ofList (bs.flatMap fun b => [digits.toList.getD (b.toNat / 16) '?', digits.toList.getD (b.toNat % 16) '?'])

/-! ## MD5 (RFC 1321) -/
namespace MD5
abbrev Word := BitVec 32

def F (x y z : Word) : Word := (x &&& y) ||| (~~~x &&& z)
def G (x y z : Word) : Word := (x &&& z) ||| (y &&& ~~~z)
def H (x y z : Word) : Word := x ^^^ y ^^^ z
def I (x y z : Word) : Word := y ^^^ (x ||| ~~~z)

/-- `T[1..64]`, `T[i]` = integer part of `4294967296 · abs(sin(i))` (RFC 1321 §3.4) -/
def T : List Word := [
  0xd76aa478#32, 0xe8c7b756#32, 0x242070db#32, 0xc1bdceee#32, 0xf57c0faf#32, 0x4787c62a#32,
  0xa8304613#32, 0xfd469501#32, 0x698098d8#32, 0x8b44f7af#32, 0xffff5bb1#32, 0x895cd7be#32,
  0x6b901122#32, 0xfd987193#32, 0xa679438e#32, 0x49b40821#32, 0xf61e2562#32, 0xc040b340#32,
  0x265e5a51#32, 0xe9b6c7aa#32, 0xd62f105d#32, 0x02441453#32, 0xd8a1e681#32, 0xe7d3fbc8#32,
  0x21e1cde6#32, 0xc33707d6#32, 0xf4d50d87#32, 0x455a14ed#32, 0xa9e3e905#32, 0xfcefa3f8#32,
  0x676f02d9#32, 0x8d2a4c8a#32, 0xfffa3942#32, 0x8771f681#32, 0x6d9d6122#32, 0xfde5380c#32,
  0xa4beea44#32, 0x4bdecfa9#32, 0xf6bb4b60#32, 0xbebfbc70#32, 0x289b7ec6#32, 0xeaa127fa#32,
  0xd4ef3085#32, 0x04881d05#32, 0xd9d4d039#32, 0xe6db99e5#32, 0x1fa27cf8#32, 0xc4ac5665#32,
  0xf4292244#32, 0x432aff97#32, 0xab9423a7#32, 0xfc93a039#32, 0x655b59c3#32, 0x8f0ccc92#32,
  0xffeff47d#32, 0x85845dd1#32, 0x6fa87e4f#32, 0xfe2ce6e0#32, 0xa3014314#32, 0x4e0811a1#32,
  0xf7537e82#32, 0xbd3af235#32, 0x2ad7d2bb#32, 0xeb86d391#32]

/-- message word used in step `i` (0-based): round 1 `i`, round 2 `1+5i`, round 3 `5+3i`,
    round 4 `7i` (mod 16) -/
def wordIndex (i : Nat) : Nat :=
  if i < 16 then i else if i < 32 then (5 * i + 1) % 16 else if i < 48 then (3 * i + 5) % 16
  else (7 * i) % 16

/-- shift amount of step `i`: per round the cycle S_1..S_4 -/
def shift (i : Nat) : Nat :=
  ([[7, 12, 17, 22], [5, 9, 14, 20], [4, 11, 16, 23], [6, 10, 15, 21]].getD (i / 16) []).getD (i % 4) 0

def f (i : Nat) : Word → Word → Word → Word :=
  if i < 16 then F else if i < 32 then G else if i < 48 then H else I

def A0 : List Word := [0x67452301#32, 0xefcdab89#32, 0x98badcfe#32, 0x10325476#32]

/-- step `i`: `a = b + ((a + f(b,c,d) + X[k] + T[i]) <<< s)`, then the roles rotate
    `(A,B,C,D) ← (D,A,B,C)` (RFC 1321's `[ABCD k s i] [DABC …] [CDAB …] [BCDA …]`) -/
def step (X : List Word) (s : List Word) (i : Nat) : List Word :=
  match s with
  | [a, b, c, d] =>
    [d, b + (a + f i b c d + X.getD (wordIndex i) 0 + T.getD i 0).rotateLeft (shift i), b, c]
  | _ => s

def compress (st : List Word) (block : Bytes) : List Word :=
  let X := (toBlocks 4 block).map (leWord 32)
  List.zipWith (· + ·) st ((List.range 64).foldl (step X) st)

def hash (msg : Bytes) : Bytes :=
  ((toBlocks 64 (pad 64 8 (fun n => leBytes 8 (BitVec.ofNat 64 n)) msg)).foldl compress A0).flatMap (leBytes 4)
end MD5

/-! ## SHA-1 (FIPS 180-4 §6.1) -/
namespace SHA1
abbrev Word := BitVec 32

def Ch (x y z : Word) : Word := (x &&& y) ^^^ (~~~x &&& z)
def Parity (x y z : Word) : Word := x ^^^ y ^^^ z
def Maj (x y z : Word) : Word := (x &&& y) ^^^ (x &&& z) ^^^ (y &&& z)

def f (t : Nat) : Word → Word → Word → Word :=
  if t < 20 then Ch else if t < 40 then Parity else if t < 60 then Maj else Parity

def K (t : Nat) : Word :=
  if t < 20 then 0x5a827999#32 else if t < 40 then 0x6ed9eba1#32
  else if t < 60 then 0x8f1bbcdc#32 else 0xca62c1d6#32

def H0 : List Word := [0x67452301#32, 0xefcdab89#32, 0x98badcfe#32, 0x10325476#32, 0xc3d2e1f0#32]

/-- message schedule `W_0 … W_79` -/
def schedule (M : List Word) : List Word :=
  (List.range 64).foldl (fun W _ =>
    let t := W.length
    W ++ [(W.getD (t - 3) 0 ^^^ W.getD (t - 8) 0 ^^^ W.getD (t - 14) 0 ^^^ W.getD (t - 16) 0).rotateLeft 1]) M

def round (W : List Word) (s : List Word) (t : Nat) : List Word :=
  match s with
  | [a, b, c, d, e] =>
    [a.rotateLeft 5 + f t b c d + e + K t + W.getD t 0, a, b.rotateLeft 30, c, d]
  | _ => s

def compress (H : List Word) (block : Bytes) : List Word :=
  let W := schedule ((toBlocks 4 block).map (beWord 32))
  List.zipWith (· + ·) H ((List.range 80).foldl (round W) H)

def hash (msg : Bytes) : Bytes :=
  ((toBlocks 64 (pad 64 8 (fun n => beBytes 8 (BitVec.ofNat 64 n)) msg)).foldl compress H0).flatMap (beBytes 4)
end SHA1

/-! ## SHA-256 (FIPS 180-4 §6.2) -/
namespace SHA256
abbrev Word := BitVec 32

def Ch (x y z : Word) : Word := (x &&& y) ^^^ (~~~x &&& z)
def Maj (x y z : Word) : Word := (x &&& y) ^^^ (x &&& z) ^^^ (y &&& z)
def bigSigma0 (x : Word) : Word := x.rotateRight 2 ^^^ x.rotateRight 13 ^^^ x.rotateRight 22
def bigSigma1 (x : Word) : Word := x.rotateRight 6 ^^^ x.rotateRight 11 ^^^ x.rotateRight 25
def smallSigma0 (x : Word) : Word := x.rotateRight 7 ^^^ x.rotateRight 18 ^^^ (x >>> 3)
def smallSigma1 (x : Word) : Word := x.rotateRight 17 ^^^ x.rotateRight 19 ^^^ (x >>> 10)

/-- first 32 bits of the fractional parts of the cube roots of the first 64 primes -/
def K : List Word := [
  0x428a2f98#32, 0x71374491#32, 0xb5c0fbcf#32, 0xe9b5dba5#32, 0x3956c25b#32, 0x59f111f1#32,
  0x923f82a4#32, 0xab1c5ed5#32, 0xd807aa98#32, 0x12835b01#32, 0x243185be#32, 0x550c7dc3#32,
  0x72be5d74#32, 0x80deb1fe#32, 0x9bdc06a7#32, 0xc19bf174#32, 0xe49b69c1#32, 0xefbe4786#32,
  0x0fc19dc6#32, 0x240ca1cc#32, 0x2de92c6f#32, 0x4a7484aa#32, 0x5cb0a9dc#32, 0x76f988da#32,
  0x983e5152#32, 0xa831c66d#32, 0xb00327c8#32, 0xbf597fc7#32, 0xc6e00bf3#32, 0xd5a79147#32,
  0x06ca6351#32, 0x14292967#32, 0x27b70a85#32, 0x2e1b2138#32, 0x4d2c6dfc#32, 0x53380d13#32,
  0x650a7354#32, 0x766a0abb#32, 0x81c2c92e#32, 0x92722c85#32, 0xa2bfe8a1#32, 0xa81a664b#32,
  0xc24b8b70#32, 0xc76c51a3#32, 0xd192e819#32, 0xd6990624#32, 0xf40e3585#32, 0x106aa070#32,
  0x19a4c116#32, 0x1e376c08#32, 0x2748774c#32, 0x34b0bcb5#32, 0x391c0cb3#32, 0x4ed8aa4a#32,
  0x5b9cca4f#32, 0x682e6ff3#32, 0x748f82ee#32, 0x78a5636f#32, 0x84c87814#32, 0x8cc70208#32,
  0x90befffa#32, 0xa4506ceb#32, 0xbef9a3f7#32, 0xc67178f2#32]

/-- first 32 bits of the fractional parts of the square roots of the first 8 primes -/
def H0 : List Word := [0x6a09e667#32, 0xbb67ae85#32, 0x3c6ef372#32, 0xa54ff53a#32,
  0x510e527f#32, 0x9b05688c#32, 0x1f83d9ab#32, 0x5be0cd19#32]

def schedule (M : List Word) : List Word :=
  (List.range 48).foldl (fun W _ =>
    let t := W.length
    W ++ [smallSigma1 (W.getD (t - 2) 0) + W.getD (t - 7) 0 + smallSigma0 (W.getD (t - 15) 0) + W.getD (t - 16) 0]) M

def round (W : List Word) (s : List Word) (t : Nat) : List Word :=
  match s with
  | [a, b, c, d, e, f, g, h] =>
    let T1 := h + bigSigma1 e + Ch e f g + K.getD t 0 + W.getD t 0
    let T2 := bigSigma0 a + Maj a b c
    [T1 + T2, a, b, c, d + T1, e, f, g]
  | _ => s

def compress (H : List Word) (block : Bytes) : List Word :=
  let W := schedule ((toBlocks 4 block).map (beWord 32))
  List.zipWith (· + ·) H ((List.range 64).foldl (round W) H)

def hash (msg : Bytes) : Bytes :=
  ((toBlocks 64 (pad 64 8 (fun n => beBytes 8 (BitVec.ofNat 64 n)) msg)).foldl compress H0).flatMap (beBytes 4)
end SHA256

/-! ## SHA-512 (FIPS 180-4 §6.4) -/
namespace SHA512
abbrev Word := BitVec 64

def Ch (x y z : Word) : Word := (x &&& y) ^^^ (~~~x &&& z)
def Maj (x y z : Word) : Word := (x &&& y) ^^^ (x &&& z) ^^^ (y &&& z)
def bigSigma0 (x : Word) : Word := x.rotateRight 28 ^^^ x.rotateRight 34 ^^^ x.rotateRight 39
def bigSigma1 (x : Word) : Word := x.rotateRight 14 ^^^ x.rotateRight 18 ^^^ x.rotateRight 41
def smallSigma0 (x : Word) : Word := x.rotateRight 1 ^^^ x.rotateRight 8 ^^^ (x >>> 7)
def smallSigma1 (x : Word) : Word := x.rotateRight 19 ^^^ x.rotateRight 61 ^^^ (x >>> 6)

/-- first 64 bits of the fractional parts of the cube roots of the first 80 primes -/
def K : List Word := [
  0x428a2f98d728ae22#64, 0x7137449123ef65cd#64, 0xb5c0fbcfec4d3b2f#64, 0xe9b5dba58189dbbc#64,
  0x3956c25bf348b538#64, 0x59f111f1b605d019#64, 0x923f82a4af194f9b#64, 0xab1c5ed5da6d8118#64,
  0xd807aa98a3030242#64, 0x12835b0145706fbe#64, 0x243185be4ee4b28c#64, 0x550c7dc3d5ffb4e2#64,
  0x72be5d74f27b896f#64, 0x80deb1fe3b1696b1#64, 0x9bdc06a725c71235#64, 0xc19bf174cf692694#64,
  0xe49b69c19ef14ad2#64, 0xefbe4786384f25e3#64, 0x0fc19dc68b8cd5b5#64, 0x240ca1cc77ac9c65#64,
  0x2de92c6f592b0275#64, 0x4a7484aa6ea6e483#64, 0x5cb0a9dcbd41fbd4#64, 0x76f988da831153b5#64,
  0x983e5152ee66dfab#64, 0xa831c66d2db43210#64, 0xb00327c898fb213f#64, 0xbf597fc7beef0ee4#64,
  0xc6e00bf33da88fc2#64, 0xd5a79147930aa725#64, 0x06ca6351e003826f#64, 0x142929670a0e6e70#64,
  0x27b70a8546d22ffc#64, 0x2e1b21385c26c926#64, 0x4d2c6dfc5ac42aed#64, 0x53380d139d95b3df#64,
  0x650a73548baf63de#64, 0x766a0abb3c77b2a8#64, 0x81c2c92e47edaee6#64, 0x92722c851482353b#64,
  0xa2bfe8a14cf10364#64, 0xa81a664bbc423001#64, 0xc24b8b70d0f89791#64, 0xc76c51a30654be30#64,
  0xd192e819d6ef5218#64, 0xd69906245565a910#64, 0xf40e35855771202a#64, 0x106aa07032bbd1b8#64,
  0x19a4c116b8d2d0c8#64, 0x1e376c085141ab53#64, 0x2748774cdf8eeb99#64, 0x34b0bcb5e19b48a8#64,
  0x391c0cb3c5c95a63#64, 0x4ed8aa4ae3418acb#64, 0x5b9cca4f7763e373#64, 0x682e6ff3d6b2b8a3#64,
  0x748f82ee5defb2fc#64, 0x78a5636f43172f60#64, 0x84c87814a1f0ab72#64, 0x8cc702081a6439ec#64,
  0x90befffa23631e28#64, 0xa4506cebde82bde9#64, 0xbef9a3f7b2c67915#64, 0xc67178f2e372532b#64,
  0xca273eceea26619c#64, 0xd186b8c721c0c207#64, 0xeada7dd6cde0eb1e#64, 0xf57d4f7fee6ed178#64,
  0x06f067aa72176fba#64, 0x0a637dc5a2c898a6#64, 0x113f9804bef90dae#64, 0x1b710b35131c471b#64,
  0x28db77f523047d84#64, 0x32caab7b40c72493#64, 0x3c9ebe0a15c9bebc#64, 0x431d67c49c100d4c#64,
  0x4cc5d4becb3e42b6#64, 0x597f299cfc657e2a#64, 0x5fcb6fab3ad6faec#64, 0x6c44198c4a475817#64]

/-- first 64 bits of the fractional parts of the square roots of the first 8 primes -/
def H0 : List Word := [0x6a09e667f3bcc908#64, 0xbb67ae8584caa73b#64, 0x3c6ef372fe94f82b#64,
  0xa54ff53a5f1d36f1#64, 0x510e527fade682d1#64, 0x9b05688c2b3e6c1f#64, 0x1f83d9abfb41bd6b#64,
  0x5be0cd19137e2179#64]

def schedule (M : List Word) : List Word :=
  (List.range 64).foldl (fun W _ =>
    let t := W.length
    W ++ [smallSigma1 (W.getD (t - 2) 0) + W.getD (t - 7) 0 + smallSigma0 (W.getD (t - 15) 0) + W.getD (t - 16) 0]) M

def round (W : List Word) (s : List Word) (t : Nat) : List Word :=
  match s with
  | [a, b, c, d, e, f, g, h] =>
    let T1 := h + bigSigma1 e + Ch e f g + K.getD t 0 + W.getD t 0
    let T2 := bigSigma0 a + Maj a b c
    [T1 + T2, a, b, c, d + T1, e, f, g]
  | _ => s

def compress (H : List Word) (block : Bytes) : List Word :=
  let W := schedule ((toBlocks 8 block).map (beWord 64))
  List.zipWith (· + ·) H ((List.range 80).foldl (round W) H)

def hash (msg : Bytes) : Bytes :=
  ((toBlocks 128 (pad 128 16 (fun n => beBytes 16 (BitVec.ofNat 128 n)) msg)).foldl compress H0).flatMap (beBytes 8)
end SHA512

/-! ## SipHash-2-4 -/
namespace SipHash
abbrev Word := BitVec 64

/-- SipRound -/
def sipRound (v : Word × Word × Word × Word) : Word × Word × Word × Word :=
  let (v0, v1, v2, v3) := v
  let v0 := v0 + v1
  let v1 := v1.rotateLeft 13
  let v1 := v1 ^^^ v0
  let v0 := v0.rotateLeft 32
  let v2 := v2 + v3
  let v3 := v3.rotateLeft 16
  let v3 := v3 ^^^ v2
  let v0 := v0 + v3
  let v3 := v3.rotateLeft 21
  let v3 := v3 ^^^ v0
  let v2 := v2 + v1
  let v1 := v1.rotateLeft 17
  let v1 := v1 ^^^ v2
  let v2 := v2.rotateLeft 32
  (v0, v1, v2, v3)

/-- compression of one message word: `v3 ⊕= m`, c = 2 SipRounds, `v0 ⊕= m` -/
def absorb (v : Word × Word × Word × Word) (m : Word) : Word × Word × Word × Word :=
  let (v0, v1, v2, v3) := v
  let (v0, v1, v2, v3) := sipRound (sipRound (v0, v1, v2, v3 ^^^ m))
  (v0 ^^^ m, v1, v2, v3)

/-- finalization: `v2 ⊕= ff`, d = 4 SipRounds, return `v0 ⊕ v1 ⊕ v2 ⊕ v3` -/
def finalization (v : Word × Word × Word × Word) : Word :=
  let (v0, v1, v2, v3) := v
  let (v0, v1, v2, v3) := sipRound (sipRound (sipRound (sipRound (v0, v1, v2 ^^^ 0xff#64, v3))))
  v0 ^^^ v1 ^^^ v2 ^^^ v3

/-- SipHash-2-4 of `msg` under the 16-byte key `key` (k0, k1 little-endian) -/
def hash (key msg : Bytes) : Word :=
  let k0 := leWord 64 (key.take 8)
  let k1 := leWord 64 ((key.drop 8).take 8)
  let v := (k0 ^^^ 0x736f6d6570736575#64, k1 ^^^ 0x646f72616e646f6d#64,
            k0 ^^^ 0x6c7967656e657261#64, k1 ^^^ 0x7465646279746573#64)
  -- the w = ⌈(b+1)/8⌉ little-endian words m_0 … m_{w-1}: the full words, then the last
  -- word made of the remaining bytes and `b mod 256` in its top byte
  let full := (toBlocks 8 msg).map (leWord 64)
  let rest := msg.drop (msg.length / 8 * 8)
  let last := leWord 64 rest ||| (BitVec.ofNat 64 (msg.length % 256) <<< 56)
  finalization ((full ++ [last]).foldl absorb v)
end SipHash

end TlxVerif.C14.Spec
