import TlxVerif.Model.C14Bytes
/-!
C14 — the buffering state machine shared (textually, up to names and the block constants) by
`MD5`, `SHA1`, `SHA256`, `SHA512` in tlx/digest/*.cpp:

```
void X::process(const void* data, uint32 size) {
    const uint32 block_size = sizeof(X::buf_);  auto in = (const uint8*)data;
    while (size > 0) {
        if (curlen_ == 0 && size >= block_size) {
            compress(state_, in);  length_ += block_size * 8;  in += block_size;  size -= block_size;
        } else {
            uint32 n = min(size, block_size - curlen_);
            copy(in, in + n, buf_ + curlen_);  curlen_ += n;  in += n;  size -= n;
            if (curlen_ == block_size) { compress(state_, buf_);  length_ += 8 * block_size;  curlen_ = 0; }
        } } }
void X::finalize(void* digest) {
    length_ += curlen_ * 8;
    buf_[curlen_++] = 0x80;
    if (curlen_ > padLimit) { while (curlen_ < fillTo) buf_[curlen_++] = 0;  compress(state_, buf_);  curlen_ = 0; }
    while (curlen_ < lenPos) buf_[curlen_++] = 0;
    storeLen(length_, buf_ + lenPos);  compress(state_, buf_);
    for (i < nwords) storeWord(state_[i], digest + wordBytes * i); }
```
The translator (tools/c14_extract_tables.py) checks on every run that the four sources still
have exactly this text and reads `sizeof buf_`, `padLimit`, `fillTo`, `lenPos` from them.
`buf_` is a fixed array: bytes beyond `curlen_` are stale and stay in the model.
-/
namespace TlxVerif.C14

structure Params (S : Type) where
  blockSize : Nat
  padLimit : Nat
  fillTo : Nat
  lenPos : Nat
  /-- `xxx_compress(state_, p)`: reads `blockSize` bytes at `p` -/
  compress : S → Bytes → S
  /-- `store64*(length_, …)`: the 8 bytes written at `buf_ + lenPos` -/
  storeLen : BitVec 64 → Bytes
  /-- constructor -/
  init : S
  /-- the output loop of `finalize` -/
  output : S → Bytes

/-- the members of the class -/
structure Ctx (S : Type) where
  length : BitVec 64
  state : S
  curlen : Nat
  buf : Bytes

/-- a freshly constructed object; `buf0` is the (uninitialised) content of `buf_` -/
def Params.new {S : Type} (P : Params S) (buf0 : Bytes) : Ctx S :=
  { length := 0, state := P.init, curlen := 0, buf := buf0 }

/-- `std::copy(src, src + n, buf + pos)` / the byte loop -/
def writeAt : Bytes → Nat → Bytes → Bytes
  | buf, _, [] => buf
  | buf, pos, b :: bs => writeAt (buf.set pos b) (pos + 1) bs

/-- `while (curlen < to) buf[curlen++] = 0;` -/
def zeroFill (buf : Bytes) (curlen to : Nat) : Bytes × Nat :=
  if curlen < to then zeroFill (buf.set curlen 0#8) (curlen + 1) to else (buf, curlen)
termination_by to - curlen

/-- the `while (size > 0)` loop of `process`; `fuel` bounds the iterations (every iteration
    consumes at least one byte as long as `curlen_ < block_size`) -/
def processLoop {S : Type} (P : Params S) : Nat → Ctx S → Bytes → Ctx S
  | 0, c, _ => c
  | fuel + 1, c, data =>
    if data.length = 0 then c
    else if c.curlen = 0 ∧ data.length ≥ P.blockSize then
      processLoop P fuel
        { c with state := P.compress c.state (data.take P.blockSize),
                 length := c.length + BitVec.ofNat 64 (P.blockSize * 8) }
        (data.drop P.blockSize)
    else
      let n := min data.length (P.blockSize - c.curlen)
      let buf := writeAt c.buf c.curlen (data.take n)
      let curlen := c.curlen + n
      let c' : Ctx S :=
        if curlen = P.blockSize then
          { state := P.compress c.state buf, length := c.length + BitVec.ofNat 64 (8 * P.blockSize),
            curlen := 0, buf := buf }
        else { c with buf := buf, curlen := curlen }
      processLoop P fuel c' (data.drop n)

/-- `X::process(data, size)` with `size = data.length` -/
def process {S : Type} (P : Params S) (c : Ctx S) (data : Bytes) : Ctx S :=
  processLoop P data.length c data

/-- `X::process(tlx::string_view str)`: `process(data, 2^30)` while more than `2^30` bytes remain,
    then `process(data, size)` — the pieces handed to `process(const void*, uint32)` -/
def svPieces (data : Bytes) : List Bytes :=
  if 2 ^ 30 < data.length then data.take (2 ^ 30) :: svPieces (data.drop (2 ^ 30)) else [data]
termination_by data.length
decreasing_by simp [List.length_drop]; omega

def processSV {S : Type} (P : Params S) (c : Ctx S) (data : Bytes) : Ctx S :=
  (svPieces data).foldl (process P) c

/-- `X::finalize(digest)`: the bytes written to `digest` and the object afterwards -/
def finalize {S : Type} (P : Params S) (c : Ctx S) : Bytes × Ctx S :=
  let length := c.length + BitVec.ofNat 64 (c.curlen * 8)
  let buf := c.buf.set c.curlen 0x80#8
  let curlen := c.curlen + 1
  let (state, buf, curlen) :=
    if curlen > P.padLimit then
      let (buf, _) := zeroFill buf curlen P.fillTo
      (P.compress c.state buf, buf, 0)
    else (c.state, buf, curlen)
  let (buf, curlen) := zeroFill buf curlen P.lenPos
  let buf := writeAt buf P.lenPos (P.storeLen length)
  let state := P.compress state buf
  (P.output state, { length := length, state := state, curlen := curlen, buf := buf })

/-- object life: default constructor, one `process` per chunk, `finalize` -/
def digestOfChunks {S : Type} (P : Params S) (buf0 : Bytes) (chunks : List Bytes) : Bytes :=
  (finalize P (chunks.foldl (process P) (P.new buf0))).1

end TlxVerif.C14
