import TlxVerif.Gen.C15Networks
/-! C15: the generated comparator tables indexed by family and entry point. -/
namespace TlxVerif.C15

inductive Family | best | boseNelson | boseNelsonParameter
  deriving DecidableEq, Repr

inductive Entry | direct | dispatch
  deriving DecidableEq, Repr

/-- the generated comparator tables, by family and entry point (index = number of elements) -/
def table : Family → Entry → List Net
  | .best, .direct => Gen.bestDirect
  | .best, .dispatch => Gen.bestDispatch
  | .boseNelson, .direct => Gen.boseNelsonDirect
  | .boseNelson, .dispatch => Gen.boseNelsonDispatch
  | .boseNelsonParameter, .direct => Gen.boseNelsonParameterDirect
  | .boseNelsonParameter, .dispatch => Gen.boseNelsonParameterDispatch

/-- the comparator sequence executed for `n` elements (`[]` beyond the table) -/
def network (f : Family) (e : Entry) (n : Nat) : Net := (table f e).getD n []

end TlxVerif.C15
