/-
C08 — executable model of tlx::multisequence_partition / multisequence_selection
(tlx/algorithm/multisequence_partition.hpp, multisequence_selection.hpp).

Transliteration of the code as it exists: same loops, same branch conditions,
same tie-breaking.  Every `begin_seqs[i].first[idx]` of the C++ is a call of `rd`,
which appends `(i, idx)` to a read trace (compared with the real code through a
logging iterator) and fails on an index outside the sequence.  `a`, `b`, `skew`
are `Int` as in the C++ (`diff_type`); nothing is clamped by the model.
-/
namespace TlxVerif.C08

/-- comparators used by the correspondence (any strict weak order is allowed by the theorems) -/
inductive Cmp | lt | gt | half
  deriving Repr, DecidableEq

def Cmp.fn : Cmp → Int → Int → Bool
  | .lt, a, b => decide (a < b)
  | .gt, a, b => decide (b < a)
  | .half, a, b => decide (a / 2 < b / 2)

/-- `round_up_to_power_of_two` by its specification (least power of two ≥ n, n ≥ 1) -/
def roundUpPow2 (n : Nat) : Nat :=
  let rec go (fuel p : Nat) : Nat :=
    match fuel with
    | 0 => p
    | fuel + 1 => if n ≤ p then p else go fuel (2 * p)
  go n 1

structure Ctx where
  lt : Int → Int → Bool
  runs : Array (Array Int)

abbrev M := StateT (Array (Nat × Int)) (Except String)

/-- `begin_seqs[i].first[idx]` -/
def rd (c : Ctx) (i : Nat) (idx : Int) : M Int := do
  modify (·.push (i, idx))
  match c.runs[i]? with
  | none => throw "no-such-sequence"
  | some r =>
    if idx < 0 then throw "read-out-of-bounds"
    else match r[idx.toNat]? with
      | some v => pure v
      | none => throw "read-out-of-bounds"

abbrev Sample := Int × Nat

/-- `lexicographic<value, seq>` -/
def lcomp (lt : Int → Int → Bool) (p q : Sample) : Bool :=
  if lt p.1 q.1 then true else if lt q.1 p.1 then false else decide (p.2 < q.2)

def insertBy (less : Sample → Sample → Bool) (x : Sample) : List Sample → List Sample
  | [] => [x]
  | y :: ys => if less x y then x :: y :: ys else y :: insertBy less x ys

/-- `std::sort(sample, lcomp)`: `lcomp` is a strict total order on pairs with distinct
sequence numbers, so the sorted arrangement is unique -/
def sortBy (less : Sample → Sample → Bool) (l : List Sample) : List Sample :=
  l.foldr (insertBy less) []

/-- top of a priority queue ordered by `less` (the element no other is `less` than… for
`lexicographic_rev` the smallest, for `lexicographic` the greatest pair) -/
def pickMin (lt : Int → Int → Bool) : List Sample → Option Sample
  | [] => none
  | x :: xs => some (xs.foldl (fun m y => if lcomp lt y m then y else m) x)

def pickMax (lt : Int → Int → Bool) : List Sample → Option Sample
  | [] => none
  | x :: xs => some (xs.foldl (fun m y => if lcomp lt m y then y else m) x)

def removeSeq (s : Nat) (l : List Sample) : List Sample := l.filter (fun p => p.2 != s)

def geti (a : Array Int) (i : Nat) : M Int :=
  match a[i]? with
  | some v => pure v
  | none => throw "index"

/-- which of the two routines (they differ in the tie rule of the `lmax`/`maxleft` scans) -/
inductive Routine | partition | selection
  deriving DecidableEq

/-- scan for the maximum of the left edges `first[a[i]-1]`; partition: "favor rear
sequences" (`!comp(x, *lmax)`), selection: `comp(*lmax, x)`.  Returns value and sequence. -/
def scanLmax (c : Ctx) (r : Routine) (m : Nat) (a : Array Int) : M (Option Sample) := do
  let mut lmax : Option Sample := none
  for i in List.range m do
    let ai ← geti a i
    if ai > 0 then
      let x ← rd c i (ai - 1)
      match lmax with
      | none => lmax := some (x, i)
      | some (v, _) =>
        let take := match r with
          | .partition => !c.lt x v
          | .selection => c.lt v x
        if take then
          let x' ← rd c i (ai - 1)     -- `lmax = &(begin_seqs[i].first[a[i] - 1])` evaluates the read again
          lmax := some (x', i)
  return lmax

structure Out where
  a : Array Int
  b : Array Int
  seqlen : Array Int

/-- the two splitter arrays of the refinement -/
structure AB where
  a : Array Int
  b : Array Int

/-- initial sample: `first[n]` of every sequence longer than `n`, sorted by (value, sequence),
followed by the too-short sequences ("conceptual infinity", dummy read of `first[0]`) -/
def initSample (c : Ctx) (seqlen : Array Int) (n : Nat) : M (List Sample) := do
  let m := c.runs.size
  let mut sample : List Sample := []
  for i in List.range m do
    if (n : Int) < seqlen[i]! then
      let v ← rd c i n
      sample := sample ++ [(v, i)]
  sample := sortBy (lcomp c.lt) sample
  for i in List.range m do
    if (n : Int) ≥ seqlen[i]! then
      let v ← rd c i 0
      sample := sample ++ [(v, i)]
  return sample

/-- `for (j = 0; j < localrank && n+1 <= seqlen[sample[j].second]; ++j) a[..] += n+1;
     for (; j < m; ++j) b[..] -= n+1;` -/
def initAB (m : Nat) (seqlen : Array Int) (sample : Array Sample) (n l localrank : Nat) : M AB := do
  let mut a : Array Int := Array.replicate m 0
  let mut b : Array Int := Array.replicate m (l : Int)
  let mut j : Nat := 0
  for _ in List.range (m + 1) do          -- at most m iterations (localrank < m)
    if j < localrank then
      match sample[j]? with
      | none => throw "sample-index"
      | some (_, s) =>
        if ((n : Int) + 1) ≤ seqlen[s]! then
          a := a.set! s (a[s]! + n + 1)
          j := j + 1
        else break
    else break
  for jj in (List.range m).drop j do
    match sample[jj]? with
    | none => throw "sample-index"
    | some (_, s) => b := b.set! s (b[s]! - (n + 1))
  return ⟨a, b⟩

/-- the `middle` loop of one round: compare `first[(a+b)/2]` with `lmax` -/
def classify (c : Ctx) (r : Routine) (m : Nat) (seqlen : Array Int) (lmax : Option Sample) (n : Nat) (ab : AB) : M AB := do
  let mut a := ab.a
  let mut b := ab.b
  for i in List.range m do
    let middle : Int := (b[i]! + a[i]!).tdiv 2
    let mut left := false
    match lmax with
    | none => pure ()
    | some (lv, ls) =>
      if middle < seqlen[i]! then
        let x ← rd c i middle
        left := match r with
          -- partition (after `fix: multisequence_partition ...`): (value, sequence) order
          | .partition => lcomp c.lt (x, i) (lv, ls)
          -- selection: plain `comp(first[middle], *lmax)`
          | .selection => c.lt x lv
    if left then
      a := a.set! i (min (a[i]! + n + 1) seqlen[i]!)
    else
      b := b.set! i (b[i]! - (n + 1))
  return ⟨a, b⟩

def leftsizeOf (m : Nat) (a : Array Int) (n : Nat) : Int := Id.run do
  let mut leftsize : Int := 0
  for i in List.range m do
    leftsize := leftsize + (a[i]!).tdiv (n + 1)
  return leftsize

/-- `for (; skew != 0 && !pq.empty(); --skew)` of the `skew > 0` branch -/
def moveLeftLoop (c : Ctx) (seqlen : Array Int) (n : Nat) : Nat → List Sample → AB → M AB
  | 0, _, ab => pure ab
  | skew + 1, pq, ab =>
    match pickMin c.lt pq with
    | none => pure ab
    | some (_, src) => do
      let pq := removeSeq src pq
      let a := ab.a.set! src (min (ab.a[src]! + n + 1) seqlen[src]!)
      let b := ab.b.set! src (ab.b[src]! + (n + 1))
      if b[src]! < seqlen[src]! then
        let v ← rd c src b[src]!
        moveLeftLoop c seqlen n skew (pq ++ [(v, src)]) ⟨a, b⟩
      else
        moveLeftLoop c seqlen n skew pq ⟨a, b⟩

/-- `skew > 0`: move to the left, find smallest -/
def moveLeft (c : Ctx) (m : Nat) (seqlen : Array Int) (n : Nat) (skew : Nat) (ab : AB) : M AB := do
  let mut pq : List Sample := []
  for i in List.range m do
    if ab.b[i]! < seqlen[i]! then
      let v ← rd c i ab.b[i]!
      pq := pq ++ [(v, i)]
  moveLeftLoop c seqlen n skew pq ab

/-- `for (; skew != 0; ++skew)` of the `skew < 0` branch (`pq.top()` of an empty queue is a failure) -/
def moveRightLoop (c : Ctx) (n : Nat) : Nat → List Sample → AB → M AB
  | 0, _, ab => pure ab
  | skew + 1, pq, ab =>
    match pickMax c.lt pq with
    | none => throw "top-of-empty-priority-queue"
    | some (_, src) => do
      let pq := removeSeq src pq
      let a := ab.a.set! src (ab.a[src]! - (n + 1))
      let b := ab.b.set! src (ab.b[src]! - (n + 1))
      if a[src]! > 0 then
        let v ← rd c src (a[src]! - 1)
        moveRightLoop c n skew (pq ++ [(v, src)]) ⟨a, b⟩
      else
        moveRightLoop c n skew pq ⟨a, b⟩

/-- `skew < 0`: move to the right, find greatest -/
def moveRight (c : Ctx) (m : Nat) (n : Nat) (skew : Nat) (ab : AB) : M AB := do
  let mut pq : List Sample := []
  for i in List.range m do
    if ab.a[i]! > 0 then
      let v ← rd c i (ab.a[i]! - 1)
      pq := pq ++ [(v, i)]
  moveRightLoop c n skew pq ab

/-- one round of `while (n > 0)`; `n` is the already halved value -/
def round (c : Ctx) (r : Routine) (m : Nat) (seqlen : Array Int) (rank n : Nat) (ab : AB) : M AB := do
  let lmax ← scanLmax c r m ab.a
  let ab ← classify c r m seqlen lmax n ab
  let skew : Int := ((rank / (n + 1) : Nat) : Int) - leftsizeOf m ab.a n
  if skew > 0 then moveLeft c m seqlen n skew.toNat ab
  else if skew < 0 then moveRight c m n (-skew).toNat ab
  else return ab

/-- `while (n > 0) { n /= 2; … }` with fuel (n halves, so `fuel = l` suffices) -/
def rounds (c : Ctx) (r : Routine) (m : Nat) (seqlen : Array Int) (rank : Nat) : Nat → Nat → AB → M AB
  | 0, _, ab => pure ab
  | fuel + 1, n, ab =>
    if n = 0 then pure ab else do
      let ab ← round c r m seqlen rank (n / 2) ab
      rounds c r m seqlen rank fuel (n / 2) ab

/-- the common body: initial partition + halving refinement -/
def refine (c : Ctx) (r : Routine) (rank : Nat) : M Out := do
  let m := c.runs.size
  let seqlen : Array Int := c.runs.map (fun x => (x.size : Int))
  let nmax : Nat := c.runs.foldl (fun acc x => max acc x.size) 0
  let l : Nat := roundUpPow2 (nmax + 1) - 1
  let n : Nat := l / 2
  let sample ← initSample c seqlen n
  let ab ← initAB m seqlen sample.toArray n l (rank / l)
  let ab ← rounds c r m seqlen rank l n ab
  return { a := ab.a, b := ab.b, seqlen := seqlen }

/-- final scan: maximum of the left edge, minimum of the right edge (reads in the C++ order) -/
def edges (c : Ctx) (r : Routine) (o : Out) : M (Option Int × Option Int) := do
  let m := c.runs.size
  let mut maxleft : Option Int := none
  let mut minright : Option Int := none
  for i in List.range m do
    if o.a[i]! > 0 then
      let x ← rd c i (o.a[i]! - 1)
      match maxleft with
      | none => maxleft := some x
      | some v =>
        let take := match r with
          | .partition => !c.lt x v
          | .selection => c.lt v x
        if take then
          let x' ← rd c i (o.a[i]! - 1)
          maxleft := some x'
    if o.b[i]! < o.seqlen[i]! then
      let x ← rd c i o.b[i]!
      match minright with
      | none => minright := some x
      | some v =>
        if c.lt x v then
          let x' ← rd c i o.b[i]!
          minright := some x'
  return (maxleft, minright)

def totalLen (c : Ctx) : Nat := c.runs.foldl (fun acc x => acc + x.size) 0

/-- `multisequence_partition`: the offsets `begin_offsets[i] - begin_seqs[i].first` -/
def partitionM (c : Ctx) (rank : Nat) : M (Array Int) := do
  if rank == totalLen c then
    return c.runs.map (fun x => (x.size : Int))
  -- assert(m != 0 && N != 0 && rank < N)
  if c.runs.size == 0 || rank > totalLen c then throw "assertion"
  let o ← refine c .partition rank
  let _ ← edges c .partition o
  return o.a

/-- `std::lower_bound(first, first + seqlen, v, comp) - first` on a sequence partitioned by `comp(·, v)` -/
def lowerBound (lt : Int → Int → Bool) (run : Array Int) (v : Int) : Nat :=
  (run.toList.takeWhile (fun x => lt x v)).length

/-- `multisequence_selection`: (selected value, offset) -/
def selectionM (c : Ctx) (rank : Nat) : M (Int × Int) := do
  if c.runs.size == 0 || totalLen c == 0 || rank ≥ totalLen c then throw "std::exception"
  let o ← refine c .selection rank
  let (maxleft, minright) ← edges c .selection o
  match minright with
  | none => throw "null-minright"
  | some mr =>
    let unamb := match maxleft with
      | none => true
      | some ml => c.lt mr ml
    if unamb then return (mr, 0)
    let mut offset : Int := 0
    for i in List.range c.runs.size do
      let lb := lowerBound c.lt c.runs[i]! mr
      offset := offset + (o.a[i]! - lb)
    return (mr, offset)

def runM {α} (x : M α) : Except String (α × Array (Nat × Int)) := x.run #[]

end TlxVerif.C08
