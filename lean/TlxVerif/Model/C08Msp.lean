/-
C08 — executable model of tlx::multisequence_partition / multisequence_selection
(tlx/algorithm/multisequence_partition.hpp, multisequence_selection.hpp).

Transliteration of the code as it exists: same loops, same branch conditions,
same tie-breaking.  Every `begin_seqs[i].first[idx]` of the C++ is a call of `rd`,
which appends `(i, idx)` to a read trace (compared with the real code through a
logging iterator) and fails on an index outside the sequence.  `a`, `b`, `skew`
are `Int` as in the C++ (`diff_type`); nothing is clamped by the model.
-/
namespace TlxVerif.C08

/-- comparators used by the correspondence (any strict weak order is allowed by the theorems) -/
inductive Cmp | lt | gt | half
  deriving Repr, DecidableEq

def Cmp.fn : Cmp → Int → Int → Bool
  | .lt, a, b => decide (a < b)
  | .gt, a, b => decide (b < a)
  | .half, a, b => decide (a / 2 < b / 2)

/-- `round_up_to_power_of_two` by its specification (least power of two ≥ n, n ≥ 1) -/
def roundUpPow2 (n : Nat) : Nat :=
  let rec go (fuel p : Nat) : Nat :=
    match fuel with
    | 0 => p
    | fuel + 1 => if n ≤ p then p else go fuel (2 * p)
  go n 1

structure Ctx where
  lt : Int → Int → Bool
  runs : Array (Array Int)

abbrev M := StateT (Array (Nat × Int)) (Except String)

/-- `begin_seqs[i].first[idx]` -/
def rd (c : Ctx) (i : Nat) (idx : Int) : M Int := do
  modify (·.push (i, idx))
  match c.runs[i]? with
  | none => throw "no-such-sequence"
  | some r =>
    if idx < 0 then throw "read-out-of-bounds"
    else match r[idx.toNat]? with
      | some v => pure v
      | none => throw "read-out-of-bounds"

abbrev Sample := Int × Nat

/-- `lexicographic<value, seq>` -/
def lcomp (lt : Int → Int → Bool) (p q : Sample) : Bool :=
  if lt p.1 q.1 then true else if lt q.1 p.1 then false else decide (p.2 < q.2)

def insertBy (less : Sample → Sample → Bool) (x : Sample) : List Sample → List Sample
  | [] => [x]
  | y :: ys => if less x y then x :: y :: ys else y :: insertBy less x ys

/-- `std::sort(sample, lcomp)`: `lcomp` is a strict total order on pairs with distinct
sequence numbers, so the sorted arrangement is unique -/
def sortBy (less : Sample → Sample → Bool) (l : List Sample) : List Sample :=
  l.foldr (insertBy less) []

/-- top of a priority queue ordered by `less` (the element no other is `less` than… for
`lexicographic_rev` the smallest, for `lexicographic` the greatest pair) -/
def pickMin (lt : Int → Int → Bool) : List Sample → Option Sample
  | [] => none
  | x :: xs => some (xs.foldl (fun m y => if lcomp lt y m then y else m) x)

def pickMax (lt : Int → Int → Bool) : List Sample → Option Sample
  | [] => none
  | x :: xs => some (xs.foldl (fun m y => if lcomp lt m y then y else m) x)

def removeSeq (s : Nat) (l : List Sample) : List Sample := l.filter (fun p => p.2 != s)

/-- `a[i]` of a `simple_vector<diff_type>` (all indices used by the algorithm are `< m`) -/
def aget (a : Array Int) (i : Nat) : Int := a.getD i 0

/-- `a[i] = v` -/
def aset (a : Array Int) (i : Nat) (v : Int) : Array Int := a.setIfInBounds i v

/-- which of the two routines (they differ in the tie rule of the `lmax`/`maxleft` scans) -/
inductive Routine | partition | selection
  deriving DecidableEq

/-- the two splitter arrays of the refinement -/
structure AB where
  a : Array Int
  b : Array Int

/-- the tie rule of the `lmax` / `maxleft` scans: partition "favor rear sequences" (`!comp(x, *lmax)`),
selection `comp(*lmax, x)` -/
def takesMax (lt : Int → Int → Bool) (r : Routine) (x v : Int) : Bool :=
  match r with
  | .partition => !lt x v
  | .selection => lt v x

/-- scan for the maximum of the left edges `first[a[i]-1]` over the sequences `is`.
Returns value and sequence.  (The assignment `lmax = &first[a[i]-1]` evaluates the read again.) -/
def scanLmax (c : Ctx) (r : Routine) (a : Array Int) : List Nat → Option Sample → M (Option Sample)
  | [], lmax => pure lmax
  | i :: is, lmax =>
    if aget a i > 0 then do
      let x ← rd c i (aget a i - 1)
      match lmax with
      | none => scanLmax c r a is (some (x, i))
      | some (v, s) =>
        if takesMax c.lt r x v then do
          let x' ← rd c i (aget a i - 1)
          scanLmax c r a is (some (x', i))
        else scanLmax c r a is (some (v, s))
    else scanLmax c r a is lmax

/-- initial sample, first loop: `first[n]` of every sequence longer than `n` -/
def sampleReal (c : Ctx) (seqlen : Array Int) (n : Nat) : List Nat → M (List Sample)
  | [] => pure []
  | i :: is =>
    if (n : Int) < aget seqlen i then do
      let v ← rd c i n
      let rest ← sampleReal c seqlen n is
      pure ((v, i) :: rest)
    else sampleReal c seqlen n is

/-- initial sample, second loop: the too-short sequences ("conceptual infinity", dummy read of `first[0]`) -/
def sampleDummy (c : Ctx) (seqlen : Array Int) (n : Nat) : List Nat → M (List Sample)
  | [] => pure []
  | i :: is =>
    if (n : Int) ≥ aget seqlen i then do
      let v ← rd c i 0
      let rest ← sampleDummy c seqlen n is
      pure ((v, i) :: rest)
    else sampleDummy c seqlen n is

/-- initial sample: the real samples sorted by (value, sequence), followed by the dummies -/
def initSample (c : Ctx) (seqlen : Array Int) (n : Nat) : M (List Sample) := do
  let real ← sampleReal c seqlen n (List.range c.runs.size)
  let dummy ← sampleDummy c seqlen n (List.range c.runs.size)
  pure (sortBy (lcomp c.lt) real ++ dummy)

/-- `for (j = 0; j < localrank && n+1 <= seqlen[sample[j].second]; ++j) a[..] += n+1;`
returns the new `a` and the samples from `j` on -/
def initLeft (seqlen : Array Int) (n localrank : Nat) : List Sample → Nat → Array Int → Array Int × List Sample
  | [], _, a => (a, [])
  | (v, s) :: rest, j, a =>
    if j < localrank ∧ ((n : Int) + 1) ≤ aget seqlen s then
      initLeft seqlen n localrank rest (j + 1) (aset a s (aget a s + n + 1))
    else (a, (v, s) :: rest)

/-- `for (; j < m; ++j) b[..] -= n+1;` -/
def initRight (n : Nat) : List Sample → Array Int → Array Int
  | [], b => b
  | (_, s) :: rest, b => initRight n rest (aset b s (aget b s - (n + 1)))

def initAB (m : Nat) (seqlen : Array Int) (sample : List Sample) (n l localrank : Nat) : AB :=
  let (a, rest) := initLeft seqlen n localrank sample 0 (Array.replicate m 0)
  ⟨a, initRight n rest (Array.replicate m (l : Int))⟩

/-- the comparison of the `middle` loop: partition (after `fix: multisequence_partition breaks ties by
sequence index`) compares in (value, sequence) order, selection plainly `comp(first[middle], *lmax)` -/
def leftTest (lt : Int → Int → Bool) (r : Routine) (x : Int) (i : Nat) (lv : Int) (ls : Nat) : Bool :=
  match r with
  | .partition => lcomp lt (x, i) (lv, ls)
  | .selection => lt x lv

/-- the `middle` loop of one round: compare `first[(a+b)/2]` with `lmax` over the sequences `is`;
`n` is the already halved value -/
def classify (c : Ctx) (r : Routine) (seqlen : Array Int) (lmax : Option Sample) (n : Nat) : List Nat → AB → M AB
  | [], ab => pure ab
  | i :: is, ab =>
    let middle : Int := (aget ab.b i + aget ab.a i).tdiv 2
    match lmax with
    | none => classify c r seqlen lmax n is ⟨ab.a, aset ab.b i (aget ab.b i - (n + 1))⟩
    | some (lv, ls) =>
      if middle < aget seqlen i then do
        let x ← rd c i middle
        if leftTest c.lt r x i lv ls then
          classify c r seqlen lmax n is ⟨aset ab.a i (min (aget ab.a i + n + 1) (aget seqlen i)), ab.b⟩
        else
          classify c r seqlen lmax n is ⟨ab.a, aset ab.b i (aget ab.b i - (n + 1))⟩
      else classify c r seqlen lmax n is ⟨ab.a, aset ab.b i (aget ab.b i - (n + 1))⟩

def leftsizeOf (a : Array Int) (n : Nat) : List Nat → Int
  | [] => 0
  | i :: is => (aget a i).tdiv (n + 1) + leftsizeOf a n is

/-- the priority queue of the `skew > 0` branch: `first[b[i]]` of every sequence with `b[i] < seqlen[i]` -/
def pqRight (c : Ctx) (seqlen : Array Int) (b : Array Int) : List Nat → M (List Sample)
  | [] => pure []
  | i :: is =>
    if aget b i < aget seqlen i then do
      let v ← rd c i (aget b i)
      let rest ← pqRight c seqlen b is
      pure ((v, i) :: rest)
    else pqRight c seqlen b is

/-- `for (; skew != 0 && !pq.empty(); --skew)` of the `skew > 0` branch: move to the left, find smallest -/
def moveLeftLoop (c : Ctx) (seqlen : Array Int) (n : Nat) : Nat → List Sample → AB → M AB
  | 0, _, ab => pure ab
  | skew + 1, pq, ab =>
    match pickMin c.lt pq with
    | none => pure ab
    | some (_, src) =>
      let a := aset ab.a src (min (aget ab.a src + n + 1) (aget seqlen src))
      let b := aset ab.b src (aget ab.b src + (n + 1))
      if aget b src < aget seqlen src then do
        let v ← rd c src (aget b src)
        moveLeftLoop c seqlen n skew (removeSeq src pq ++ [(v, src)]) ⟨a, b⟩
      else
        moveLeftLoop c seqlen n skew (removeSeq src pq) ⟨a, b⟩

/-- the priority queue of the `skew < 0` branch: `first[a[i]-1]` of every sequence with `a[i] > 0` -/
def pqLeft (c : Ctx) (a : Array Int) : List Nat → M (List Sample)
  | [] => pure []
  | i :: is =>
    if aget a i > 0 then do
      let v ← rd c i (aget a i - 1)
      let rest ← pqLeft c a is
      pure ((v, i) :: rest)
    else pqLeft c a is

/-- `for (; skew != 0; ++skew)` of the `skew < 0` branch: move to the right, find greatest
(`pq.top()` of an empty queue is a failure) -/
def moveRightLoop (c : Ctx) (n : Nat) : Nat → List Sample → AB → M AB
  | 0, _, ab => pure ab
  | skew + 1, pq, ab =>
    match pickMax c.lt pq with
    | none => throw "top-of-empty-priority-queue"
    | some (_, src) =>
      let a := aset ab.a src (aget ab.a src - (n + 1))
      let b := aset ab.b src (aget ab.b src - (n + 1))
      if aget a src > 0 then do
        let v ← rd c src (aget a src - 1)
        moveRightLoop c n skew (removeSeq src pq ++ [(v, src)]) ⟨a, b⟩
      else
        moveRightLoop c n skew (removeSeq src pq) ⟨a, b⟩

/-- one round of `while (n > 0)`; `n` is the already halved value -/
def round (c : Ctx) (r : Routine) (seqlen : Array Int) (rank n : Nat) (ab : AB) : M AB := do
  let idx := List.range c.runs.size
  let lmax ← scanLmax c r ab.a idx none
  let ab ← classify c r seqlen lmax n idx ab
  let skew : Int := ((rank / (n + 1) : Nat) : Int) - leftsizeOf ab.a n idx
  if skew > 0 then do
    let pq ← pqRight c seqlen ab.b idx
    moveLeftLoop c seqlen n skew.toNat pq ab
  else if skew < 0 then do
    let pq ← pqLeft c ab.a idx
    moveRightLoop c n (-skew).toNat pq ab
  else pure ab

/-- `while (n > 0) { n /= 2; … }` with fuel (n halves, so `fuel = l` suffices) -/
def rounds (c : Ctx) (r : Routine) (seqlen : Array Int) (rank : Nat) : Nat → Nat → AB → M AB
  | 0, _, ab => pure ab
  | fuel + 1, n, ab =>
    if n = 0 then pure ab else do
      let ab ← round c r seqlen rank (n / 2) ab
      rounds c r seqlen rank fuel (n / 2) ab

structure Out where
  a : Array Int
  b : Array Int
  seqlen : Array Int

def seqlenOf (c : Ctx) : Array Int := (c.runs.toList.map (fun x => (x.size : Int))).toArray

def nmaxOf (c : Ctx) : Nat := c.runs.toList.foldl (fun acc x => max acc x.size) 0

/-- the common body: initial partition + halving refinement -/
def refine (c : Ctx) (r : Routine) (rank : Nat) : M Out := do
  let m := c.runs.size
  let seqlen := seqlenOf c
  let l : Nat := roundUpPow2 (nmaxOf c + 1) - 1
  let n : Nat := l / 2
  let sample ← initSample c seqlen n
  let ab := initAB m seqlen sample n l (rank / l)
  let ab ← rounds c r seqlen rank l n ab
  pure { a := ab.a, b := ab.b, seqlen := seqlen }

/-- final scan, left edge of sequence `i`: `maxleft` (the assignment `maxleft = &first[..]` evaluates the read again) -/
def edgeLeft (c : Ctx) (r : Routine) (o : Out) (i : Nat) (ml : Option Int) : M (Option Int) :=
  if aget o.a i > 0 then do
    let x ← rd c i (aget o.a i - 1)
    match ml with
    | none => pure (some x)
    | some v =>
      if takesMax c.lt r x v then do
        let x' ← rd c i (aget o.a i - 1)
        pure (some x')
      else pure (some v)
  else pure ml

/-- final scan, right edge of sequence `i`: `minright` -/
def edgeRight (c : Ctx) (o : Out) (i : Nat) (mr : Option Int) : M (Option Int) :=
  if aget o.b i < aget o.seqlen i then do
    let x ← rd c i (aget o.b i)
    match mr with
    | none => pure (some x)
    | some v =>
      if c.lt x v then do
        let x' ← rd c i (aget o.b i)
        pure (some x')
      else pure (some v)
  else pure mr

/-- final scan: maximum of the left edge, minimum of the right edge (reads in the C++ order) -/
def edges (c : Ctx) (r : Routine) (o : Out) : List Nat → Option Int → Option Int → M (Option Int × Option Int)
  | [], ml, mr => pure (ml, mr)
  | i :: is, ml, mr =>
    edgeLeft c r o i ml >>= fun ml' =>
    edgeRight c o i mr >>= fun mr' =>
    edges c r o is ml' mr'

def totalLen (c : Ctx) : Nat := c.runs.toList.foldl (fun acc x => acc + x.size) 0

/-- `multisequence_partition`: the offsets `begin_offsets[i] - begin_seqs[i].first` -/
def partitionM (c : Ctx) (rank : Nat) : M (Array Int) :=
  if rank == totalLen c then
    pure (seqlenOf c)
  -- assert(m != 0 && N != 0 && rank < N)
  else if c.runs.size == 0 || rank > totalLen c then throw "assertion"
  else do
    let o ← refine c .partition rank
    let _ ← edges c .partition o (List.range c.runs.size) none none
    pure o.a

/-- `std::lower_bound(first, first + seqlen, v, comp) - first` on a sequence partitioned by `comp(·, v)` -/
def lowerBound (lt : Int → Int → Bool) (run : Array Int) (v : Int) : Nat :=
  (run.toList.takeWhile (fun x => lt x v)).length

def offsetSum (c : Ctx) (a : Array Int) (mr : Int) : List Nat → Int
  | [] => 0
  | i :: is => (aget a i - (lowerBound c.lt (c.runs.getD i #[]) mr : Int)) + offsetSum c a mr is

/-- `multisequence_selection`: (selected value, offset) -/
def selectionM (c : Ctx) (rank : Nat) : M (Int × Int) :=
  if c.runs.size == 0 || totalLen c == 0 || rank ≥ totalLen c then throw "std::exception"
  else do
    let o ← refine c .selection rank
    let (maxleft, minright) ← edges c .selection o (List.range c.runs.size) none none
    match minright with
    | none => throw "null-minright"
    | some mr =>
      let unamb := match maxleft with
        | none => true
        | some ml => c.lt mr ml
      if unamb then pure (mr, 0)
      else pure (mr, offsetSum c o.a mr (List.range c.runs.size))

def runM {α} (x : M α) : Except String (α × Array (Nat × Int)) := x.run #[]

end TlxVerif.C08
