/-
C03 — a *traced* copy of the control skeleton of the model (adapters, explicit-stack loops,
multikey quicksort recursion): it takes the same decisions as `Model/C03Radix.lean` /
`Model/C03Mkqs.lean` and additionally records

  * which (site, stack-level parity, flipped flag of the bucket pointer, branch) combinations were
    executed (`cov`, a table of counters), and
  * for every memory-limit test the absolute threshold `T` of the `memory` argument below which the
    test succeeds (`thr`), computed from the same `sizeof` constants and the same subtractions.

It is used only to *place* memory limits in generated cases (`sweep`) and to report branch
coverage; no theorem depends on it.  In full mode it also returns the sorted result, which the
driver compares with the proved model on every input of at most 4096 strings, so that a drift
between the two shows up as a correspondence failure.  In plan mode the leaf sorters are skipped
(the decisions depend on bucket sizes only).
-/
import TlxVerif.Model.C03Radix
namespace TlxVerif.C03.Trace

variable {α : Type} (str : α → Str)

/-- sites -/
def sCE0top := 0
def sCE2top := 1
def sCE3top := 2
def sCI2top := 3
def sCI3top := 4
def sCE0loop := 5
def sCE2loop := 6
def sCE3loop := 7
def sCI2loop := 8
def sCI3loop := 9
def sMkqs := 10
def nSites := 11

def siteNames : List String :=
  ["CE0.top", "CE2.top", "CE3.top", "CI2.top", "CI3.top", "CE0.loop", "CE2.loop", "CE3.loop", "CI2.loop",
   "CI3.loop", "mkqs"]

/-- branches of a loop: 0 finished/empty, 1 zero-termination, 2 insertion sort, 3 8-bit sub-loop,
4 memory fall-back (multikey quicksort), 5 push a new step.
branches of an adapter: 0 insertion sort, 1 delegate (fewer than 65536), 2 memory fall-back, 3 loop.
branches of multikey quicksort: 0 insertion (n < 32), 1 insertion (memory), 2 partition -/
def covKey (site par fl br : Nat) : Nat := ((site * 2 + par) * 2 + fl) * 8 + br

structure TS where
  cov : Array Nat := Array.replicate (nSites * 32) 0
  thr : List (Nat × Nat) := []     -- (priority, threshold): 0 adapters and 16-bit loops, 1 8-bit loops, 2 mkqs
  cost : Nat := 0      -- Σ n² over insertion sorts of ≥ 32 strings forced by the memory limit

def TS.hit (s : TS) (site level : Nat) (fl : Bool) (br : Nat) : TS :=
  { s with cov := s.cov.modify (covKey site (level % 2) (if fl then 1 else 0) br) (· + 1) }

def TS.addThr (s : TS) (t : Nat) (prio : Nat := 0) : TS := { s with thr := (prio, t) :: s.thr }

abbrev Res (α : Type) := (List α × List Nat) × TS

def leafIns (plan wl : Bool) (depth : Nat) (b : List α) (v : List Nat) : List α × List Nat :=
  if plan then (b, v) else insertionSort str wl depth b v

/-- `multikey_quicksort` with trace; `off` = what has been subtracted from the caller's `memory` -/
def mkqsT (plan : Bool) (c : Consts) (wl : Bool) :
    Nat → List α → List Nat → Nat → Nat → Nat → Nat → TS → Res α
  | 0, ss, l, _, _, _, _, ts => ((ss, l), ts)
  | fuel + 1, ss, l, depth, mem, off, rdepth, ts =>
    let n := ss.length
    let memoryUse := 2 * 8 + c.szSet + 5 * c.szIter
    if n < 32 then (leafIns str plan wl depth ss l, ts.hit sMkqs rdepth false 0)
    else
      let ts := ts.addThr (off + memoryUse + 1) 2
      if mem ≠ 0 ∧ mem < memoryUse + 1 then
        (leafIns str plan wl depth ss l, { ts.hit sMkqs rdepth false 1 with cost := ts.cost + n * n })
      else
        let ts := ts.hit sMkqs rdepth false 2
        let p := partition str depth ss
        let peStart := min p.pa (p.pb - p.pa)
        let peEnd := n - min (p.pd - p.pc) (n - p.pd - 1)
        let l := if wl ∧ p.pivot = 0 then setRange l (peStart + 1) peEnd depth else l
        let nLess := p.pb - p.pa
        let nEq := p.pa + (n - p.pd - 1)
        let nGt := p.pd - p.pc
        let l := if wl ∧ nLess > 0 then l.set nLess depth else l
        let l := if wl ∧ nGt > 0 then l.set (n - nGt) depth else l
        let all := p.arr.toList
        let sLess := all.take nLess
        let sEq := (all.drop nLess).take nEq
        let sGt := all.drop (n - nGt)
        let lLess := l.take nLess
        let lEq := (l.drop nLess).take nEq
        let lGt := l.drop (n - nGt)
        let mem' := wsub mem memoryUse
        let off' := off + memoryUse
        let (rLess, ts) := if nLess > 1 then mkqsT plan c wl fuel sLess lLess depth mem' off' (rdepth + 1) ts
          else ((sLess, lLess), ts)
        let (rEq, ts) := if headChar str depth sEq ≠ 0 then
            mkqsT plan c wl fuel sEq lEq (depth + 1) mem' off' (rdepth + 1) ts
          else ((sEq, lEq), ts)
        let (rGt, ts) := if nGt > 1 then mkqsT plan c wl fuel sGt lGt depth mem' off' (rdepth + 1) ts
          else ((sGt, lGt), ts)
        ((rLess.1 ++ rEq.1 ++ rGt.1, rLess.2 ++ rEq.2 ++ rGt.2), ts)

def mkqsTop (plan : Bool) (c : Consts) (wl : Bool) (depth : Nat) (ss : List α) (l : List Nat) (mem off : Nat)
    (ts : TS) : Res α :=
  mkqsT str plan c wl (mkqsFuel str ss) ss l depth mem off 0 ts

/-- the loop over the buckets of a step, threading the trace -/
def walkT (bs : List (List α)) (views : List (List Nat)) (ts : TS)
    (f : Nat → List α → List Nat → TS → Res α) : Res α :=
  let r := (bs.zip views).zipIdx.foldl
    (fun (acc : List (List α × List Nat) × TS) p =>
      let r := f p.2 p.1.1 p.1.2 acc.2
      (r.1 :: acc.1, r.2)) ([], ts)
  let res := r.1.reverse
  ((res.flatMap Prod.fst, res.flatMap Prod.snd), r.2)

/-- 8-bit loops: `site` ∈ CE0.loop, CE2.loop (out of place), CI2.loop (in place);
`fl` = flipped flag of the step's pointer (out of place only) -/
def loop8T (plan : Bool) (c : Consts) (wl : Bool) (site step : Nat) (inPlace : Bool) :
    Nat → List α → List Nat → Nat → Nat → Bool → Nat → Nat → TS → Res α
  | 0, ss, l, _, _, _, _, _, ts => ((ss, l), ts)
  | fuel + 1, ss, l, depth, level, fl, mem, off, ts =>
    let key := fun x => key8 (str x) depth
    let bs := if inPlace then
        let p := permuteInPlace 256 key ss
        splitBy p.2 p.1
      else scatterBuckets 256 key ss
    let sizes := bs.map List.length
    let l1 := if wl then stepLcp8 sizes ss.length depth l else l
    let bfl := !inPlace && !fl      -- flag of `strptr.flip(pos, size)`
    walkT bs (splitBy sizes l1) ts fun idx b v ts =>
      if idx = 0 then ((b, v), ts.hit site level bfl 0)
      else if (if inPlace then b.length ≤ 1 else b.length = 0) then ((b, v), ts.hit site level bfl 0)
      else if b.length < inssortThreshold then
        (leafIns str plan wl (depth + 1) b v, ts.hit site level bfl 2)
      else
        let ts := ts.addThr (off + step * (level + 1)) 1
        if mem ≠ 0 ∧ mem < step * (level + 1) then
          mkqsTop str plan c wl (depth + 1) b v (wsub mem (step * level)) (off + step * level)
            (ts.hit site level bfl 4)
        else
          loop8T plan c wl site step inPlace fuel b v (depth + 1) (level + 1) bfl mem off (ts.hit site level bfl 5)

/-- 16-bit loops: CE3.loop (out of place) / CI3.loop (in place) -/
def loop16T (plan : Bool) (c : Consts) (wl : Bool) (inPlace : Bool) :
    Nat → List α → List Nat → Nat → Nat → Bool → Nat → Nat → TS → Res α
  | 0, ss, l, _, _, _, _, _, ts => ((ss, l), ts)
  | fuel + 1, ss, l, depth, level, fl, mem, off, ts =>
    let site := if inPlace then sCI3loop else sCE3loop
    let step := if inPlace then c.stepCI3 else c.stepCE3
    let key := fun x => key16 (str x) depth
    let bs := if inPlace then
        let p := permuteInPlace 65536 key ss
        splitBy p.2 p.1
      else scatterBuckets 65536 key ss
    let sizes := bs.map List.length
    let l1 := if wl then stepLcp16 sizes depth l else l
    let bfl := !inPlace && !fl
    walkT bs (splitBy sizes l1) ts fun idx b v ts =>
      if idx = 0 then ((b, v), ts.hit site level bfl 0)
      else if (if inPlace then b.length ≤ 1 else b.length = 0) then ((b, v), ts.hit site level bfl 0)
      else if idx &&& 0xFF = 0 then
        ((b, if wl then setRange v 1 b.length (depth + 1) else v), ts.hit site level bfl 1)
      else if b.length < inssortThreshold then
        (leafIns str plan wl (depth + 2) b v, ts.hit site level bfl 2)
      else if b.length < 65536 then
        loop8T str plan c wl (if inPlace then sCI2loop else sCE2loop) (if inPlace then c.stepCI2 else c.stepCE2)
          inPlace (radixFuel str b) b v (depth + 2) 1 bfl (wsub mem (step * level)) (off + step * level)
          (ts.hit site level bfl 3)
      else
        let ts := ts.addThr (off + step * (level + 1))
        if mem ≠ 0 ∧ mem < step * (level + 1) then
          mkqsTop str plan c wl (depth + 2) b v (wsub mem (step * level)) (off + step * level)
            (ts.hit site level bfl 4)
        else
          loop16T plan c wl inPlace fuel b v (depth + 2) (level + 1) bfl mem off (ts.hit site level bfl 5)

/-! adapters -/

def ci2Top (plan : Bool) (c : Consts) (wl : Bool) (depth : Nat) (ss : List α) (l : List Nat) (mem off : Nat)
    (ts : TS) : Res α :=
  if ss.length < inssortThreshold then (leafIns str plan wl depth ss l, ts.hit sCI2top 0 false 0)
  else
    let memoryUse := 2 * 8 + c.szSet + ss.length * 1
    let ts := ts.addThr (off + memoryUse + 3 * c.stepCI2 + 1)
    if mem ≠ 0 ∧ mem < memoryUse + 3 * c.stepCI2 + 1 then
      mkqsTop str plan c wl depth ss l mem off (ts.hit sCI2top 0 false 2)
    else loop8T str plan c wl sCI2loop c.stepCI2 true (radixFuel str ss) ss l depth 1 false (wsub mem memoryUse)
      (off + memoryUse) (ts.hit sCI2top 0 false 3)

def ci3Top (plan : Bool) (c : Consts) (wl : Bool) (depth : Nat) (ss : List α) (l : List Nat) (mem off : Nat)
    (ts : TS) : Res α :=
  if ss.length < inssortThreshold then (leafIns str plan wl depth ss l, ts.hit sCI3top 0 false 0)
  else if ss.length < 65536 then ci2Top str plan c wl depth ss l mem off (ts.hit sCI3top 0 false 1)
  else
    let memoryUse := 2 * 8 + c.szSet + ss.length * 2
    let ts := ts.addThr (off + memoryUse + 3 * c.stepCI3 + 1)
    if mem ≠ 0 ∧ mem < memoryUse + 3 * c.stepCI3 + 1 then
      ci2Top str plan c wl depth ss l mem off (ts.hit sCI3top 0 false 2)
    else loop16T str plan c wl true (radixFuel str ss) ss l depth 1 false (wsub mem memoryUse) (off + memoryUse)
      (ts.hit sCI3top 0 false 3)

def ce0Top (plan : Bool) (c : Consts) (wl : Bool) (depth : Nat) (ss : List α) (l : List Nat) (mem off : Nat)
    (ts : TS) : Res α :=
  if ss.length < inssortThreshold then (leafIns str plan wl depth ss l, ts.hit sCE0top 0 false 0)
  else
    let memoryUse := 2 * 8 + c.szSet + ss.length * c.szStr
    let ts := ts.addThr (off + memoryUse + 3 * c.stepCE0 + 1)
    if mem ≠ 0 ∧ mem < memoryUse + 3 * c.stepCE0 + 1 then
      mkqsTop str plan c wl depth ss l mem off (ts.hit sCE0top 0 false 2)
    else loop8T str plan c wl sCE0loop c.stepCE0 false (radixFuel str ss) ss l depth 1 false (wsub mem memoryUse)
      (off + memoryUse) (ts.hit sCE0top 0 false 3)

def ce2Top (plan : Bool) (c : Consts) (wl : Bool) (depth : Nat) (ss : List α) (l : List Nat) (mem off : Nat)
    (ts : TS) : Res α :=
  if ss.length < inssortThreshold then (leafIns str plan wl depth ss l, ts.hit sCE2top 0 false 0)
  else
    let memoryUse := 2 * 8 + c.szSet + ss.length * 1 + ss.length * c.szStr
    let ts := ts.addThr (off + memoryUse + 3 * c.stepCE2 + 1)
    if mem ≠ 0 ∧ mem < memoryUse + 3 * c.stepCE2 + 1 then
      ci3Top str plan c wl depth ss l mem off (ts.hit sCE2top 0 false 2)
    else loop8T str plan c wl sCE2loop c.stepCE2 false (radixFuel str ss) ss l depth 1 false (wsub mem memoryUse)
      (off + memoryUse) (ts.hit sCE2top 0 false 3)

def ce3Top (plan : Bool) (c : Consts) (wl : Bool) (depth : Nat) (ss : List α) (l : List Nat) (mem off : Nat)
    (ts : TS) : Res α :=
  if ss.length < inssortThreshold then (leafIns str plan wl depth ss l, ts.hit sCE3top 0 false 0)
  else if ss.length < 65536 then ce2Top str plan c wl depth ss l mem off (ts.hit sCE3top 0 false 1)
  else
    let memoryUse := 2 * 8 + c.szSet + ss.length * 2 + ss.length * c.szStr
    let ts := ts.addThr (off + memoryUse + 3 * c.stepCE3 + 1)
    if mem ≠ 0 ∧ mem < memoryUse + 3 * c.stepCE3 + 1 then
      ce2Top str plan c wl depth ss l mem off (ts.hit sCE3top 0 false 2)
    else loop16T str plan c wl false (radixFuel str ss) ss l depth 1 false (wsub mem memoryUse) (off + memoryUse)
      (ts.hit sCE3top 0 false 3)

/-- entry by algorithm name of the line protocol -/
def runT (plan : Bool) (algo : String) (c : Consts) (wl : Bool) (depth : Nat) (ss : List α) (l : List Nat)
    (mem : Nat) : Res α :=
  let ts : TS := {}
  match algo with
  | "ins" => (leafIns str plan wl depth ss l, ts)
  | "mkqs" => mkqsTop str plan c wl depth ss l mem 0 ts
  | "CE0" => ce0Top str plan c wl depth ss l mem 0 ts
  | "CE2" => ce2Top str plan c wl depth ss l mem 0 ts
  | "CI2" => ci2Top str plan c wl depth ss l mem 0 ts
  | "CI3" => ci3Top str plan c wl depth ss l mem 0 ts
  | _ => ce3Top str plan c wl depth ss l mem 0 ts

/-- `idx:count` pairs of the non-zero counters -/
def showCov (ts : TS) : String :=
  ",".intercalate ((ts.cov.toList.zipIdx.filter (fun p => p.1 ≠ 0)).map fun p => s!"{p.2}:{p.1}")

/-- breadth-first exploration of memory limits: start unlimited, then just below / at / above every
threshold met so far; returns `(memory, coverage)` of every explored limit -/
def sweep (algo : String) (c : Consts) (depth : Nat) (ss : List α) (maxRuns : Nat) :
    List (Nat × String) :=
  let rec go (fuel : Nat) (queue seen : List Nat) (acc : List (Nat × String)) : List (Nat × String) :=
    match fuel, queue with
    | 0, _ => acc.reverse
    | _, [] => acc.reverse
    | fuel + 1, m :: rest =>
      let r := runT str true algo c false depth ss [] m
      -- just below every threshold first (that is where the branch flips), adapters and 16-bit loops
      -- before 8-bit loops before multikey quicksort; then at and just above
      let thr := r.2.thr.eraseDups
      let byPrio := fun (p : Nat) => (thr.filter fun t => t.1 = p).map Prod.snd
      let ordered := byPrio 0 ++ byPrio 1 ++ byPrio 2
      let cands := (ordered.map (· - 1) ++ ordered ++ ordered.map (· + 1)).filter fun x => 0 < x ∧ x < 2 ^ 64
      let new := cands.eraseDups.filter fun x => ¬ seen.contains x ∧ ¬ rest.contains x
      go fuel (rest ++ new) (new ++ seen) ((m, showCov r.2 ++ "/" ++ toString r.2.cost) :: acc)
  go maxRuns [0] [0] []

end TlxVerif.C03.Trace
