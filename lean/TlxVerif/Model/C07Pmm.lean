/-
C07 — executable model of tlx::parallel_multiway_merge_base and its four front ends
(tlx/algorithm/parallel_multiway_merge.hpp, multiway_merge_splitting.hpp).

Transliteration of the code as it exists.  The sequential `multiway_merge_base` that every
thread runs on its chunks is represented by its specification (`kMergeTake`: the first `len`
elements of the stable merge) — it is verified under C05.  `multisequence_partition` is the
transliterated model of C08 (`TlxVerif.C08.partitionM`).
Elements are tagged `(key, seq, pos)` and compared by key only.
-/
import TlxVerif.Model.C08Msp
namespace TlxVerif.C07

structure Elem where
  key : Int
  seq : Nat
  pos : Nat
  deriving Repr, DecidableEq, Inhabited

/-- `multiway_merge_detail::equally_split(n, p, s)` (`DiffType` arithmetic as `Int`) -/
def equallySplit (n : Int) (p : Nat) : List Int :=
  let chunk : Int := n.tdiv p
  let split : Int := n.tmod p
  let rec go (fuel : Nat) (i : Nat) (start : Int) (acc : List Int) : List Int :=
    match fuel with
    | 0 => acc ++ [n]
    | fuel + 1 =>
      let acc := acc ++ [start]
      let start := start + (if (i : Int) < split then chunk + 1 else chunk)
      let start := if start ≥ n then n - 1 else start
      go fuel (i + 1) start acc
  go p 0 0 []

/-- stable insertion: `x` goes in front of the first element that is not less than it -/
def insertStable (lt : Int → Int → Bool) (x : Elem) : List Elem → List Elem
  | [] => [x]
  | y :: ys => if lt y.key x.key then y :: insertStable lt x ys else x :: y :: ys

/-- the stable merge of runs given in sequence order = stable sort of their concatenation -/
def kMerge (lt : Int → Int → Bool) (runs : List (List Elem)) : List Elem :=
  runs.flatten.foldr (insertStable lt) []

/-- specification of `multiway_merge_base<Stable, false>(seqs, target, len)`:
the written elements (`len` may not exceed the number of elements) -/
def kMergeTake (lt : Int → Int → Bool) (runs : List (List Elem)) (len : Nat) : List Elem :=
  (kMerge lt runs).take len

/-- `std::upper_bound(first, second, v, comp) - first` on a sorted run -/
def upperBound (lt : Int → Int → Bool) (run : List Elem) (v : Int) : Nat :=
  (run.takeWhile (fun x => !lt v x.key)).length

/-- `std::(stable_)sort(samples, comp)`: only the key sequence matters for `upper_bound`
(merge sort: up to 64·64·k samples are sorted per call) -/
def sortKeys (lt : Int → Int → Bool) (l : List Int) : List Int := l.mergeSort (fun a b => !lt b a)

/-- a chunk: `[first, second)` as offsets into one (non-empty) input sequence -/
structure Chunk where
  first : Nat
  second : Nat
  deriving Repr, DecidableEq, Inhabited

structure Params where
  lt : Int → Int → Bool
  stable : Bool
  exact : Bool            -- MWMSA_EXACT / MWMSA_SAMPLING
  threads : Nat
  osf : Nat               -- parallel_multiway_merge_oversampling
  /-- `static_cast<DiffType>(double(len) * (double(i+1)/double(ns+1)) * (double(size)/double(total)))`;
  IEEE double arithmetic is supplied by the driver, the theorems hold for any function -/
  sampleIdx : (len i ns size total : Nat) → Nat

structure Result where
  out : List Elem
  ret : Int
  begins : List Nat            -- per input sequence (empty ones included), offset of the new `first`
  windows : List (Nat × Nat)   -- (target_position, length) of every thread, in thread order
  parallel : Bool
  deriving Repr

abbrev R := Except String

/-- `multisequence_partition(seqs, rank, offsets)` through the transliterated C08 model; the offsets
`begin_offsets[i] - seqs[i].first` must not be negative -/
def partOffsets (lt : Int → Int → Bool) (seqs : List (List Elem)) (rank : Int) : R (List Nat) :=
  if rank < 0 then throw "multisequence_partition at negative rank"
  else
    let c8 : C08.Ctx := { lt := lt, runs := (seqs.map fun r => (r.map (·.key)).toArray).toArray }
    match C08.runM (C08.partitionM c8 rank.toNat) with
    | .ok (o, _) =>
      if o.toList.all (fun x => decide (0 ≤ x)) then pure (o.toList.map Int.toNat)
      else throw "multisequence_partition returned an offset before the begin of a sequence"
    | .error e => throw s!"multisequence_partition: {e}"

/-- `multiway_merge_exact_splitting`: the end offsets of every slab's chunks.
`offsets[s]`, s < p-1, are the partitions at `ranks[s+1]`; the last slab ends at the partition at rank
`size` when `size < total` (computed once, behind the loop, after `fix: exact splitting with one
thread …`) and at the ends of the sequences when everything is merged. -/
def exactEnds (part : Int → R (List Nat)) (seqs : List (List Elem)) (size total p : Nat) : R (List (List Nat)) := do
  let ranks := equallySplit size p
  let inner ← (List.range (p - 1)).mapM (fun s => part (ranks.getD (s + 1) (-1)))
  let last ← if total == size then pure (seqs.map List.length) else part size
  pure (inner ++ [last])

/-- `seqs_begin[s].first[sample_index]` -/
def sampleKey (run : List Elem) (j : Nat) : R Int :=
  match run[j]? with
  | some e => pure e.key
  | none => throw "sample index outside the sequence"

/-- `samples[idx]` -/
def splitterAt (sorted : List Int) (idx : Nat) : R Int :=
  match sorted[idx]? with
  | some v => pure v
  | none => throw "sample read out of bounds"

/-- the sorted samples of `multiway_merge_sampling_splitting` -/
def samplesOf (P : Params) (seqs : List (List Elem)) (size total ns : Nat) : R (List Int) := do
  let rows ← seqs.mapM (fun run => (List.range ns).mapM (fun i =>
    sampleKey run (P.sampleIdx run.length i ns size total)))
  pure (sortKeys P.lt rows.flatten)

/-- `multiway_merge_sampling_splitting`: the end offsets of every slab's chunks
(`upper_bound` of `samples[ns * k * (slab+1) / p]`; the last slab ends at the ends of the sequences) -/
def samplingEnds (P : Params) (seqs : List (List Elem)) (size total p : Nat) : R (List (List Nat)) := do
  let ns := p * P.osf
  let sorted ← samplesOf P seqs size total ns
  let inner ← (List.range (p - 1)).mapM (fun slab => do
    let v ← splitterAt sorted (ns * seqs.length * (slab + 1) / p)
    pure (seqs.map fun run => upperBound P.lt run v))
  pure (inner ++ [seqs.map List.length])

/-- chunks[slab][seq]: a slab begins where the previous one ends (slab 0 at the begins) -/
def chunkTable : List Nat → List (List Nat) → List (List Chunk)
  | _, [] => []
  | prev, e :: es => List.zipWith Chunk.mk prev e :: chunkTable e es

/-- elements `[first, second)` of a run; a reversed or out-of-range chunk is a failure -/
def sliceChunk (run : List Elem) (c : Chunk) : R (List Elem) :=
  if c.second < c.first || c.second > run.length then
    throw "chunk is not a sub-range of its sequence"
  else pure ((run.take c.second).drop c.first)

/-- one thread: `target_position`, `local_size`, and the merge of
`min(local_size, size - target_position)` elements of its chunks -/
def threadPart (lt : Int → Int → Bool) (seqs : List (List Elem)) (size : Nat) (row : List Chunk) :
    R (Nat × List Elem) := do
  let parts ← (List.zip seqs row).mapM (fun rc => sliceChunk rc.1 rc.2)
  let tp := (row.map (·.first)).sum
  let localSize := (row.map (fun c => c.second - c.first)).sum
  if tp > size then throw "negative merge length"
  else pure (tp, kMergeTake lt parts (min localSize (size - tp)))

/-- write `es` to the positions `k, k+1, …` of the output; a position may be written only once -/
def place : List (Option Elem) → Nat → List Elem → R (List (Option Elem))
  | out, _, [] => pure out
  | out, k, e :: es =>
    match out[k]? with
    | none => throw "write outside the output range"
    | some (some _) => throw "output position written twice"
    | some none => place (out.set k (some e)) (k + 1) es

def placeAll : List (Option Elem) → List (Nat × List Elem) → R (List (Option Elem))
  | out, [] => pure out
  | out, (tp, es) :: rest => do
    let out ← place out tp es
    placeAll out rest

/-- place the thread windows into the output; every position must be written exactly once -/
def assemble (size : Nat) (wins : List (Nat × List Elem)) : R (List Elem) := do
  let out ← placeAll (List.replicate size none) wins
  out.mapM (fun o => match o with
    | some e => pure e
    | none => throw "output position never written")

/-- `ii->first = chunks[num_threads - 1][count_seqs++].second` for the non-empty sequences -/
def scatterBegins : List (List Elem) → List Nat → List Nat
  | [], _ => []
  | r :: rs, os =>
    if r.isEmpty then 0 :: scatterBegins rs os
    else match os with
      | [] => 0 :: scatterBegins rs []
      | o :: os => o :: scatterBegins rs os

/-- the threads and the final update of the input begins, for the slab ends computed by the splitter -/
def pmmRun (lt : Int → Int → Bool) (seqsAll seqs : List (List Elem)) (size : Nat) (ends : List (List Nat)) :
    R Result := do
  let rows := chunkTable (List.replicate seqs.length 0) ends
  let wins ← rows.mapM (threadPart lt seqs size)
  let out ← assemble size wins
  pure { out := out, ret := size,
         begins := scatterBegins seqsAll (ends.getLastD []),
         windows := wins.map (fun w => (w.1, w.2.length)), parallel := true }

/-- `parallel_multiway_merge_base<Stable>` on the caller's sequences (some possibly empty) -/
def pmmBase (P : Params) (seqsAll : List (List Elem)) (size : Nat) : R Result :=
  let seqs := seqsAll.filter (fun r => !r.isEmpty)
  let total := (seqs.map List.length).sum
  -- (after `fix: forced parallel multiway merge of zero elements`: size == 0 returns here too)
  if total == 0 || seqs.length == 0 || size == 0 then
    pure { out := [], ret := 0, begins := seqsAll.map (fun _ => 0), windows := [], parallel := true }
  else
    let p := if P.threads > total then total else P.threads
    if p == 0 then throw "zero threads"
    -- (after `fix: parallel multiway merge with sampling splitting and size < total`: sampling only
    -- when everything is merged)
    else if !P.exact && size == total then
      samplingEnds P seqs size total p >>= pmmRun P.lt seqsAll seqs size
    else
      exactEnds (partOffsets P.lt seqs) seqs size total p >>= pmmRun P.lt seqsAll seqs size

/-- sequential fall-back `multiway_merge_base<Stable, Sentinels>` by its specification -/
def seqMerge (P : Params) (seqsAll : List (List Elem)) (size : Nat) : Result :=
  let out := kMergeTake P.lt seqsAll size
  { out := out, ret := out.length,
    begins := (List.range seqsAll.length).map fun s => (out.filter (fun e => e.seq == s)).length,
    windows := [(0, out.length)], parallel := false }

/-- the switch of the four front ends -/
def usesParallel (forceSeq forcePar : Bool) (threads k size minK minN : Nat) : Bool :=
  !forceSeq && (forcePar || (threads > 1 && k ≥ minK && size ≥ minN))

def pmm (P : Params) (forceSeq forcePar : Bool) (minK minN : Nat) (seqsAll : List (List Elem)) (size : Nat) :
    R Result :=
  if seqsAll.isEmpty then
    pure { out := [], ret := 0, begins := [], windows := [], parallel := false }
  else if usesParallel forceSeq forcePar P.threads seqsAll.length size minK minN then
    pmmBase P seqsAll size
  else pure (seqMerge P seqsAll size)

end TlxVerif.C07
