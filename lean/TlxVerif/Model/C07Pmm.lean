/-
C07 — executable model of tlx::parallel_multiway_merge_base and its four front ends
(tlx/algorithm/parallel_multiway_merge.hpp, multiway_merge_splitting.hpp).

Transliteration of the code as it exists.  The sequential `multiway_merge_base` that every
thread runs on its chunks is represented by its specification (`kMergeTake`: the first `len`
elements of the stable merge) — it is verified under C05.  `multisequence_partition` is the
transliterated model of C08 (`TlxVerif.C08.partitionM`).
Elements are tagged `(key, seq, pos)` and compared by key only.
-/
import TlxVerif.Model.C08Msp
namespace TlxVerif.C07

structure Elem where
  key : Int
  seq : Nat
  pos : Nat
  deriving Repr, DecidableEq, Inhabited

/-- `multiway_merge_detail::equally_split(n, p, s)` (`DiffType` arithmetic as `Int`) -/
def equallySplit (n : Int) (p : Nat) : List Int :=
  let chunk : Int := n.tdiv p
  let split : Int := n.tmod p
  let rec go (fuel : Nat) (i : Nat) (start : Int) (acc : List Int) : List Int :=
    match fuel with
    | 0 => acc ++ [n]
    | fuel + 1 =>
      let acc := acc ++ [start]
      let start := start + (if (i : Int) < split then chunk + 1 else chunk)
      let start := if start ≥ n then n - 1 else start
      go fuel (i + 1) start acc
  go p 0 0 []

/-- stable insertion: `x` goes in front of the first element that is not less than it -/
def insertStable (lt : Int → Int → Bool) (x : Elem) : List Elem → List Elem
  | [] => [x]
  | y :: ys => if lt y.key x.key then y :: insertStable lt x ys else x :: y :: ys

/-- the stable merge of runs given in sequence order = stable sort of their concatenation -/
def kMerge (lt : Int → Int → Bool) (runs : List (List Elem)) : List Elem :=
  runs.flatten.foldr (insertStable lt) []

/-- specification of `multiway_merge_base<Stable, false>(seqs, target, len)`:
the written elements (`len` may not exceed the number of elements) -/
def kMergeTake (lt : Int → Int → Bool) (runs : List (List Elem)) (len : Nat) : List Elem :=
  (kMerge lt runs).take len

/-- `std::upper_bound(first, second, v, comp) - first` on a sorted run -/
def upperBound (lt : Int → Int → Bool) (run : List Elem) (v : Int) : Nat :=
  (run.takeWhile (fun x => !lt v x.key)).length

def insertKey (lt : Int → Int → Bool) (x : Int) : List Int → List Int
  | [] => [x]
  | y :: ys => if lt y x then y :: insertKey lt x ys else x :: y :: ys

/-- `std::(stable_)sort(samples, comp)`: only the key sequence matters for `upper_bound` -/
def sortKeys (lt : Int → Int → Bool) (l : List Int) : List Int := l.foldr (insertKey lt) []

/-- a chunk: `[first, second)` as offsets into one (non-empty) input sequence -/
structure Chunk where
  first : Int
  second : Int
  deriving Repr, DecidableEq, Inhabited

structure Params where
  lt : Int → Int → Bool
  stable : Bool
  exact : Bool            -- MWMSA_EXACT / MWMSA_SAMPLING
  threads : Nat
  osf : Nat               -- parallel_multiway_merge_oversampling
  /-- `static_cast<DiffType>(double(len) * (double(i+1)/double(ns+1)) * (double(size)/double(total)))`;
  IEEE double arithmetic is supplied by the driver, the theorems hold for any function -/
  sampleIdx : (len i ns size total : Nat) → Nat

structure Result where
  out : List Elem
  ret : Int
  begins : List Int            -- per input sequence (empty ones included), offset of the new `first`
  windows : List (Int × Int)   -- (target_position, length) of every thread, in thread order
  parallel : Bool
  deriving Repr

abbrev R := Except String

/-- `multiway_merge_exact_splitting`: chunks[slab][seq] -/
def exactSplitting (P : Params) (seqs : List (List Elem)) (size total : Nat) (p : Nat) :
    R (List (List Chunk)) := do
  let numSeqs := seqs.length
  let tight := total == size
  let c8 : C08.Ctx := { lt := P.lt, runs := (seqs.map fun r => (r.map (·.key)).toArray).toArray }
  let ranks := equallySplit size p
  let part (rank : Int) : R (List Int) :=
    if rank < 0 then throw "multisequence_partition at negative rank"
    else match C08.runM (C08.partitionM c8 rank.toNat) with
      | .ok (o, _) => pure o.toList
      | .error e => throw s!"multisequence_partition: {e}"
  let mut offsets : Array (Option (List Int)) := Array.replicate p none
  -- (after `fix: exact splitting with one thread …` the non-tight last partition is computed
  -- once, behind the loop)
  for s in List.range (p - 1) do
    let o ← part (ranks.getD (s + 1) (-1))
    offsets := offsets.set! s (some o)
  if !tight then   -- last one also needed and available
    let o ← part size
    offsets := offsets.set! (p - 1) (some o)
  let mut chunks : List (List Chunk) := []
  for slab in List.range p do
    let mut row : List Chunk := []
    for s in List.range numSeqs do
      let first ← if slab == 0 then pure (0 : Int) else
        match offsets[slab - 1]! with
        | some o => pure (o.getD s 0)
        | none => throw "read of an offsets vector that was never filled"
      let second ← if !tight || slab < p - 1 then
          match offsets[slab]! with
          | some o => pure (o.getD s 0)
          | none => throw "read of an offsets vector that was never filled"
        else pure ((seqs.getD s []).length : Int)
      row := row ++ [⟨first, second⟩]
    chunks := chunks ++ [row]
  return chunks

/-- `multiway_merge_sampling_splitting` -/
def samplingSplitting (P : Params) (seqs : List (List Elem)) (size total : Nat) (p : Nat) :
    R (List (List Chunk)) := do
  let numSeqs := seqs.length
  let ns := p * P.osf
  let mut samples : List Int := []
  for s in List.range numSeqs do
    let run := seqs.getD s []
    for i in List.range ns do
      let idx := P.sampleIdx run.length i ns size total
      match run[idx]? with
      | some e => samples := samples ++ [e.key]
      | none => throw "sample index outside the sequence"
  let sorted := (sortKeys P.lt samples).toArray
  let mut chunks : List (List Chunk) := []
  for slab in List.range p do
    let mut row : List Chunk := []
    for s in List.range numSeqs do
      let run := seqs.getD s []
      let first ← if slab > 0 then
          match sorted[ns * numSeqs * slab / p]? with
          | some v => pure (upperBound P.lt run v : Int)
          | none => throw "sample read out of bounds"
        else pure (0 : Int)
      let second ← if slab + 1 < p then
          match sorted[ns * numSeqs * (slab + 1) / p]? with
          | some v => pure (upperBound P.lt run v : Int)
          | none => throw "sample read out of bounds"
        else pure (run.length : Int)
      row := row ++ [⟨first, second⟩]
    chunks := chunks ++ [row]
  return chunks

/-- elements `[first, second)` of a run; a reversed or out-of-range chunk is a failure -/
def sliceChunk (run : List Elem) (c : Chunk) : R (List Elem) :=
  if c.first < 0 || c.second < c.first || c.second > run.length then
    throw "chunk is not a sub-range of its sequence"
  else pure ((run.drop c.first.toNat).take (c.second - c.first).toNat)

/-- place the thread windows into the output; every position must be written exactly once -/
def assemble (size : Nat) (wins : List (Int × List Elem)) : R (List Elem) := do
  let mut out : Array (Option Elem) := Array.replicate size none
  for (tp, es) in wins do
    let mut k : Int := tp
    for e in es do
      if k < 0 || k ≥ size then throw "write outside the output range"
      match out[k.toNat]! with
      | some _ => throw "output position written twice"
      | none => out := out.set! k.toNat (some e)
      k := k + 1
  let mut res : List Elem := []
  for o in out.toList do
    match o with
    | some e => res := res ++ [e]
    | none => throw "output position never written"
  return res

/-- `parallel_multiway_merge_base<Stable>` on the caller's sequences (some possibly empty) -/
def pmmBase (P : Params) (seqsAll : List (List Elem)) (size : Nat) : R Result := do
  let seqs := seqsAll.filter (fun r => !r.isEmpty)
  let total := (seqs.map List.length).sum
  let numSeqs := seqs.length
  let begins0 : List Int := seqsAll.map fun _ => 0
  -- (after `fix: forced parallel multiway merge of zero elements`: size == 0 returns here too)
  if total == 0 || numSeqs == 0 || size == 0 then
    return { out := [], ret := 0, begins := begins0, windows := [], parallel := true }
  let p := if P.threads > total then total else P.threads
  if p == 0 then throw "zero threads"
  -- (after `fix: parallel multiway merge with sampling splitting and size < total`: sampling only
  -- when everything is merged)
  let chunks ← if !P.exact && size == total then samplingSplitting P seqs size total p
               else exactSplitting P seqs size total p
  -- the threads
  let mut wins : List (Int × List Elem) := []
  let mut windows : List (Int × Int) := []
  for iam in List.range p do
    let row := chunks.getD iam []
    let mut tp : Int := 0
    let mut localSize : Int := 0
    let mut parts : List (List Elem) := []
    for s in List.range numSeqs do
      let c := row.getD s default
      tp := tp + c.first
      localSize := localSize + (c.second - c.first)
      parts := parts ++ [← sliceChunk (seqs.getD s []) c]
    let len := min localSize ((size : Int) - tp)
    if len < 0 then throw "negative merge length"
    windows := windows ++ [(tp, len)]
    wins := wins ++ [(tp, kMergeTake P.lt parts len.toNat)]
  let out ← assemble size wins
  -- update ends of sequences: chunks[num_threads - 1][count_seqs++].second
  let last := chunks.getD (p - 1) []
  let mut begins : List Int := []
  let mut cnt := 0
  for r in seqsAll do
    if r.isEmpty then begins := begins ++ [0]
    else
      begins := begins ++ [(last.getD cnt default).second]
      cnt := cnt + 1
  return { out := out, ret := size, begins := begins, windows := windows, parallel := true }

/-- sequential fall-back `multiway_merge_base<Stable, Sentinels>` by its specification -/
def seqMerge (P : Params) (seqsAll : List (List Elem)) (size : Nat) : Result :=
  let out := kMergeTake P.lt seqsAll size
  { out := out, ret := out.length,
    begins := (List.range seqsAll.length).map fun s => ((out.filter (fun e => e.seq == s)).length : Int),
    windows := [(0, out.length)], parallel := false }

/-- the switch of the four front ends -/
def usesParallel (forceSeq forcePar : Bool) (threads k size minK minN : Nat) : Bool :=
  !forceSeq && (forcePar || (threads > 1 && k ≥ minK && size ≥ minN))

def pmm (P : Params) (forceSeq forcePar : Bool) (minK minN : Nat) (seqsAll : List (List Elem)) (size : Nat) :
    R Result :=
  if seqsAll.isEmpty then
    pure { out := [], ret := 0, begins := [], windows := [], parallel := false }
  else if usesParallel forceSeq forcePar P.threads seqsAll.length size minK minN then
    pmmBase P seqsAll size
  else pure (seqMerge P seqsAll size)

end TlxVerif.C07
