/-
C03 — tlx/sort/strings/multikey_quicksort.hpp.

The Bentley–Sedgewick partition is transliterated on an `Array` with the four cursors
`pa pb pc pd` as indices (so that even the order of equal strings agrees with the C++ code);
the three recursive calls work on the three consecutive sub-ranges and their LCP sub-arrays.
-/
import TlxVerif.Model.C03Insertion
namespace TlxVerif.C03

variable {α : Type} (str : α → Str)

/-- `ss.get_char(*p, depth)` for the element at index `i` -/
def chAt (depth : Nat) (arr : Array α) (i : Nat) : UInt8 :=
  match arr[i]? with
  | some x => charAt (str x) depth
  | none => 0

/-- `med3func` (multikey_quicksort.hpp:46-61) on indices -/
def med3 (depth : Nat) (arr : Array α) (a b c : Nat) : Nat :=
  let va := chAt str depth arr a
  let vb := chAt str depth arr b
  if va = vb then a
  else
    let vc := chAt str depth arr c
    if vc = va ∨ vc = vb then c
    else if va < vb then (if vb < vc then b else if va < vc then c else a)
    else (if vb > vc then b else if va < vc then a else c)

/-- `while (pb <= pc && (r = get_char(*pb) - pivot) <= 0) { if (r == 0) swap(*pa++, *pb); pb++; }` -/
def partUp (depth : Nat) (pivot : UInt8) (pc : Nat) : Nat → Array α → Nat → Nat → Array α × Nat × Nat
  | 0, arr, pa, pb => (arr, pa, pb)
  | fuel + 1, arr, pa, pb =>
    if pb ≤ pc ∧ chAt str depth arr pb ≤ pivot then
      if chAt str depth arr pb = pivot then
        partUp depth pivot pc fuel (arr.swapIfInBounds pa pb) (pa + 1) (pb + 1)
      else partUp depth pivot pc fuel arr pa (pb + 1)
    else (arr, pa, pb)

/-- `while (pb <= pc && (r = get_char(*pc) - pivot) >= 0) { if (r == 0) swap(*pc, *pd--); pc--; }` -/
def partDown (depth : Nat) (pivot : UInt8) (pb : Nat) : Nat → Array α → Nat → Nat → Array α × Nat × Nat
  | 0, arr, pc, pd => (arr, pc, pd)
  | fuel + 1, arr, pc, pd =>
    if pb ≤ pc ∧ chAt str depth arr pc ≥ pivot then
      if chAt str depth arr pc = pivot then
        partDown depth pivot pb fuel (arr.swapIfInBounds pc pd) (pc - 1) (pd - 1)
      else partDown depth pivot pb fuel arr (pc - 1) pd
    else (arr, pc, pd)

/-- the `for (;;)` loop (multikey_quicksort.hpp:113-132) -/
def partLoop (depth : Nat) (pivot : UInt8) (n : Nat) :
    Nat → Array α → Nat → Nat → Nat → Nat → Array α × Nat × Nat × Nat × Nat
  | 0, arr, pa, pb, pc, pd => (arr, pa, pb, pc, pd)
  | fuel + 1, arr, pa, pb, pc, pd =>
    let (arr1, pa1, pb1) := partUp str depth pivot pc (n + 1) arr pa pb
    let (arr2, pc2, pd2) := partDown str depth pivot pb1 (n + 1) arr1 pc pd
    if pb1 > pc2 then (arr2, pa1, pb1, pc2, pd2)
    else partLoop depth pivot n fuel (arr2.swapIfInBounds pb1 pc2) pa1 (pb1 + 1) (pc2 - 1) pd2

/-- `vec_swap(a, b, n)` on indices -/
def vecSwap (arr : Array α) (a b : Nat) : Nat → Array α
  | 0 => arr
  | k + 1 => vecSwap (arr.swapIfInBounds a b) (a + 1) (b + 1) k

structure Parted (α : Type) where
  arr : Array α
  pivot : UInt8
  pa : Nat
  pb : Nat
  pc : Nat
  pd : Nat

/-- pivot selection and partitioning (multikey_quicksort.hpp:96-141), `n ≥ 32` -/
def partition (depth : Nat) (ss : List α) : Parted α :=
  let arr := ss.toArray
  let n := arr.size
  let pl := 0
  let pm := n / 2
  let pn := n - 1
  -- if (n > 30): pseudomedian of 9 (always taken, the caller has n >= 32)
  let (pl, pm, pn) :=
    if n > 30 then
      let d := n / 8
      (med3 str depth arr pl (pl + d) (pl + 2 * d), med3 str depth arr (pm - d) pm (pm + d),
        med3 str depth arr (pn - 2 * d) (pn - d) pn)
    else (pl, pm, pn)
  let pm := med3 str depth arr pl pm pn
  let arr := arr.swapIfInBounds 0 pm
  let pivot := chAt str depth arr 0
  let (arr, pa, pb, pc, pd) := partLoop str depth pivot n (n + 1) arr 1 1 (n - 1) (n - 1)
  -- r = min(pa - a, pb - pa); vec_swap(a, pb - r, r);
  let r := min pa (pb - pa)
  let arr := vecSwap arr 0 (pb - r) r
  -- r = min(pd - pc, pn - pd - 1); vec_swap(pb, pn - r, r);
  let r := min (pd - pc) (n - pd - 1)
  let arr := vecSwap arr pb (n - r) r
  { arr, pivot, pa, pb, pc, pd }

/-- `ss.get_char(*(a + r), depth)`: the character of the first string of the equal range -/
def headChar (depth : Nat) (l : List α) : UInt8 :=
  match l.head? with
  | some x => charAt (str x) depth
  | none => 0

/-- an upper bound of the number of nested calls: every call either drops the pivot's equal
range or moves one character deeper into strings that have that character -/
def mkqsFuel (ss : List α) : Nat := ss.length + (ss.map fun x => (str x).length).sum + 1

/-- `multikey_quicksort` (multikey_quicksort.hpp:73-175) -/
def mkqsGo (c : Consts) (withLcp : Bool) :
    Nat → List α → List Nat → Nat → Nat → List α × List Nat
  | 0, ss, l, _, _ => (ss, l)
  | fuel + 1, ss, l, depth, memory =>
    let n := ss.length
    let memoryUse := 2 * 8 + c.szSet + 5 * c.szIter
    if n < 32 ∨ (memory ≠ 0 ∧ memory < memoryUse + 1) then insertionSort str withLcp depth ss l
    else
      let p := partition str depth ss
      let peStart := min p.pa (p.pb - p.pa)
      let peEnd := n - min (p.pd - p.pc) (n - p.pd - 1)
      let l := if withLcp ∧ p.pivot = 0 then setRange l (peStart + 1) peEnd depth else l
      let nLess := p.pb - p.pa
      let nEq := p.pa + (n - p.pd - 1)
      let nGt := p.pd - p.pc
      -- the two border stores `set_lcp(r, depth)` / `set_lcp(n - r, depth)`
      let l := if withLcp ∧ nLess > 0 then l.set nLess depth else l
      let l := if withLcp ∧ nGt > 0 then l.set (n - nGt) depth else l
      let all := p.arr.toList
      let sLess := all.take nLess
      let sEq := (all.drop nLess).take nEq
      let sGt := all.drop (n - nGt)
      let lLess := l.take nLess
      let lEq := (l.drop nLess).take nEq
      let lGt := l.drop (n - nGt)
      let mem' := wsub memory memoryUse
      let rLess := if nLess > 1 then mkqsGo c withLcp fuel sLess lLess depth mem' else (sLess, lLess)
      let rEq :=
        if headChar str depth sEq ≠ 0 then
          mkqsGo c withLcp fuel sEq lEq (depth + 1) mem'
        else (sEq, lEq)
      let rGt := if nGt > 1 then mkqsGo c withLcp fuel sGt lGt depth mem' else (sGt, lGt)
      (rLess.1 ++ rEq.1 ++ rGt.1, rLess.2 ++ rEq.2 ++ rGt.2)

def multikeyQuicksort (c : Consts) (withLcp : Bool) (depth : Nat) (ss : List α) (l : List Nat)
    (memory : Nat) : List α × List Nat :=
  mkqsGo str c withLcp (mkqsFuel str ss) ss l depth memory

end TlxVerif.C03
