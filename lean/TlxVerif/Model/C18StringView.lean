/-
C18 — model side: transliteration of tlx/container/string_view.hpp (class
`tlx::StringView`) over `List UInt8`.  A view `(ptr_, size_)` is represented by
the bytes it denotes; where the code hands out pointers into the viewed range
(`substr`, `remove_prefix`) the model also returns the offset of the new `ptr_`.

The `<algorithm>` / `char_traits` primitives the header calls are modelled by
reference implementations of their standard contracts (`stdEqual`, `stdSearch`,
`stdFindFirstOf`, `lexCompare`, `traitsCompare`, `traitsFind`) — trusted.
`size_type` arithmetic that can wrap in the code (`find_last_not_of`) is modelled
modulo 2^64 (`wadd`/`wsub`); everything else is guarded by the code against
underflow and uses `Nat`.

Each definition names the C++ member it follows; branch order is the code's.
-/
import TlxVerif.Model.C18Spec
namespace TlxVerif.C18
namespace Model

def wadd (a b : Nat) : Nat := (a + b) % 18446744073709551616
def wsub (a b : Nat) : Nat := (a + 18446744073709551616 - b % 18446744073709551616) % 18446744073709551616

/-! ### modelled library primitives -/

/-- `std::equal(first1, last1, first2)`: `a` is `[first1,last1)`, `b` starts at `first2` -/
def stdEqual : Bytes → Bytes → Bool
  | [], _ => true
  | _ :: _, [] => false      -- would read past the second range; never reached from the header
  | x :: xs, y :: ys => x == y && stdEqual xs ys

/-- `std::search(first, last, s_first, s_last) - first` (`h.length` = `last`: not found) -/
def stdSearch : Bytes → Bytes → Nat
  | [], _ => 0
  | c :: t, s => if s.isPrefixOf (c :: t) then 0 else stdSearch t s + 1

/-- `std::find_first_of(first, last, s_first, s_last) - first` -/
def stdFindFirstOf : Bytes → Bytes → Nat
  | [], _ => 0
  | c :: t, s => if s.contains c then 0 else stdFindFirstOf t s + 1

/-- `std::lexicographical_compare` with element order `lt` -/
def lexCompare (lt : UInt8 → UInt8 → Bool) : Bytes → Bytes → Bool
  | _, [] => false
  | [], _ :: _ => true
  | a :: as, b :: bs => if lt a b then true else if lt b a then false else lexCompare lt as bs

/-- `std::char_traits<char>::compare(a, b, n)` (memcmp), normalised to its sign -/
def traitsCompare : Bytes → Bytes → Nat → Int
  | _, _, 0 => 0
  | a :: as, b :: bs, n + 1 => if a < b then -1 else if b < a then 1 else traitsCompare as bs n
  | _, _, _ + 1 => 0         -- fewer than n bytes: not reached (n ≤ both sizes)

/-- `std::char_traits<char>::find(s, n, c) != nullptr` (memchr) -/
def traitsFind (s : Bytes) (c : UInt8) : Bool := s.contains c

/-! ### element access, modifiers, conversions -/

/-- `at(pos)`; `none` = throws `std::out_of_range` -/
def at? (h : Bytes) (pos : Nat) : Option UInt8 :=
  if pos ≥ h.length then none else h[pos]?

/-- `front()` / `back()` (precondition: not empty) -/
def front? (h : Bytes) : Option UInt8 := h[0]?
def back? (h : Bytes) : Option UInt8 := h[h.length - 1]?

/-- `remove_prefix(n)`: (offset of the new `ptr_`, bytes) -/
def removePrefix (h : Bytes) (n : Nat) : Nat × Bytes :=
  let n := if n > h.length then h.length else n
  (n, h.drop n)

/-- `remove_suffix(n)` -/
def removeSuffix (h : Bytes) (n : Nat) : Nat × Bytes :=
  let n := if n > h.length then h.length else n
  (0, h.take (h.length - n))

/-- `to_string()` / `explicit operator std::string()` -/
def toString (h : Bytes) : Bytes := h

/-- `copy(s, n, pos)`: (returned count, bytes written to `s`) -/
def copy (h : Bytes) (n pos : Nat) : Option (Nat × Bytes) :=
  if pos > h.length then none
  else
    let rsize := min n (h.length - pos)
    some (rsize, (h.drop pos).take rsize)    -- std::copy(data() + pos, data() + pos + rsize, s)

/-- `substr(pos, n)` -/
def substr (h : Bytes) (pos n : Nat) : Option (Nat × Bytes) :=
  if pos > h.length then none
  else some (pos, (h.drop pos).take (min (h.length - pos) n))

/-! ### comparisons -/

/-- `compare(StringView x)` -/
def compare (h x : Bytes) : Int :=
  let cmp := traitsCompare h x (min h.length x.length)
  if cmp ≠ 0 then cmp
  else if h.length = x.length then 0
  else if h.length < x.length then -1 else 1

/-- `compare(pos1, n1, x)`; `none` = `std::out_of_range` from `substr` -/
def compare3 (h : Bytes) (pos1 n1 : Nat) (x : Bytes) : Option Int :=
  (substr h pos1 n1).map fun a => compare a.2 x

/-- `compare(pos1, n1, x, pos2, n2)` -/
def compare5 (h : Bytes) (pos1 n1 : Nat) (x : Bytes) (pos2 n2 : Nat) : Option Int :=
  match substr h pos1 n1 with
  | none => none
  | some a =>
    match substr x pos2 n2 with
    | none => none
    | some b => some (compare a.2 b.2)

/-- member `operator==` -/
def eq (h o : Bytes) : Bool := h.length == o.length && stdEqual h o
def ne (h o : Bytes) : Bool := !eq h o
/-- member `operator<` -/
def lt (h o : Bytes) : Bool := compare h o < 0
def gt (h o : Bytes) : Bool := lt o h
def le (h o : Bytes) : Bool := !lt o h
def ge (h o : Bytes) : Bool := !lt h o

/-- free `operator==(StringView, std::string)` and the mirrored overload -/
def eqStr (a b : Bytes) : Bool := a.length == b.length && stdEqual a b
/-- free `operator<(StringView, std::string)` and the mirrored overload -/
def ltStr (a b : Bytes) : Bool := compare a b < 0

/-! ### starts_with / ends_with -/

def startsWithC (h : Bytes) (c : UInt8) : Bool := !h.isEmpty && front? h == some c
def startsWith (h x : Bytes) : Bool := decide (h.length ≥ x.length) && stdEqual (h.take x.length) x
def endsWithC (h : Bytes) (c : UInt8) : Bool := !h.isEmpty && back? h == some c
def endsWith (h x : Bytes) : Bool :=
  decide (h.length ≥ x.length) && stdEqual (h.drop (h.length - x.length)) x

/-! ### find family -/

/-- `find(StringView s, pos)` -/
def find (h s : Bytes) (pos : Nat) : Nat :=
  if pos > h.length then npos
  else if s.isEmpty then pos
  else
    let r := h.drop pos                    -- [cbegin()+pos, cend())
    let i := stdSearch r s
    if i = r.length then npos else pos + i

/-- the `for (cur = ptr_ + pos;; --cur)` loop of `rfind` -/
def rfindLoop (h s : Bytes) : Nat → Nat
  | 0 => if traitsCompare h s s.length == 0 then 0 else npos
  | cur + 1 =>
    if traitsCompare (h.drop (cur + 1)) s s.length == 0 then cur + 1
    else rfindLoop h s cur

/-- `rfind(StringView s, pos)` -/
def rfind (h s : Bytes) (pos : Nat) : Nat :=
  if h.length < s.length then npos
  else
    let pos := if pos > h.length - s.length then h.length - s.length else pos
    if s.length = 0 then pos
    else rfindLoop h s pos

/-- `find_first_of(StringView s, pos)` -/
def findFirstOf (h s : Bytes) (pos : Nat) : Nat :=
  if pos ≥ h.length ∨ s.length = 0 then npos
  else
    let r := h.drop pos
    let i := stdFindFirstOf r s
    if i = r.length then npos else pos + i

/-- `reverse_distance(crbegin(), iter)` = `size_ - 1 - distance`; only called for an
element that was found, so nothing wraps -/
def reverseDistance (h : Bytes) (d : Nat) : Nat := h.length - 1 - d

/-- `find_last_of(StringView s, pos)` -/
def findLastOf (h s : Bytes) (pos : Nat) : Nat :=
  if s.length = 0 then npos
  else
    let pos := if pos ≥ h.length then 0 else h.length - (pos + 1)
    let r := h.reverse.drop pos            -- [crbegin()+pos, crend())
    let i := stdFindFirstOf r s
    if i = r.length then npos else reverseDistance h (pos + i)

/-- private `find_not_of(first, last, s) - first` -/
def findNotOf : Bytes → Bytes → Nat
  | [], _ => 0
  | c :: t, s => if !traitsFind s c then 0 else findNotOf t s + 1

/-- `find_first_not_of(StringView s, pos)` -/
def findFirstNotOf (h s : Bytes) (pos : Nat) : Nat :=
  if pos ≥ h.length then npos
  else if s.length = 0 then pos
  else
    let r := h.drop pos
    let i := findNotOf r s
    if i = r.length then npos else pos + i

/-- `find_last_not_of(StringView s, pos)`; `size_ - 1` wraps to `npos` on an empty view -/
def findLastNotOf (h s : Bytes) (pos : Nat) : Nat :=
  let pos := if pos ≥ h.length then wsub h.length 1 else pos
  if s.length = 0 then pos
  else
    let pos := wsub h.length (wadd pos 1)
    let r := h.reverse.drop pos
    let i := findNotOf r s
    if i = r.length then npos else reverseDistance h (pos + i)

end Model
end TlxVerif.C18
