/-
Model of `tlx::DAryAddressableIntHeap<KeyType, Arity, Compare>`
(tlx/container/d_ary_addressable_int_heap.hpp).

State = `heap_` (`Array Nat`) and `handles_` (`Array (Option Nat)`, `none` = `not_present()`).
The class has its own copies of `sift_up`, `sift_down` and `heapify` which additionally
write `handles_`; they are transliterated here (not shared with `C13DAry`).  Reads of
`heap_` carry their index proofs (derived from the loop guards); a write `handles_[key] = …`
is *checked* (`wrH`): it fails (`none`) when `key ≥ handles_.size()`, which would be an
out-of-bounds write in C++.  A violated documented precondition also yields `none`.
-/
import TlxVerif.Model.C13DAry
namespace TlxVerif.C13

abbrev Handles := Array (Option Nat)

/-- `handles_[key] = val` -/
def wrH (hd : Handles) (key : Nat) (val : Option Nat) : Option Handles :=
  if h : key < hd.size then some (hd.set key val) else none

/-- `handles_.resize(max(handles_.size(), m), not_present())` -/
def growH (hd : Handles) (m : Nat) : Handles :=
  hd ++ Array.replicate (m - hd.size) none

/-- loop of `sift_up` with the handle writes:
```
while (k > 0 && !cmp_(heap_[p], value)) { heap_[k] = heap_[p]; handles_[heap_[k]] = k; k = p; … }
handles_[value] = k; heap_[k] = value;
``` -/
def aSiftUpFrom (lt : Nat → Nat → Bool) (d : Nat) (v : Nat) {n : Nat} (a : Vector Nat n)
    (hd : Handles) (k : Nat) (hk : k < n) : Option (Vector Nat n × Handles) :=
  if h0 : k = 0 then (wrH hd v (some k)).map fun hd' => (a.set k v, hd')
  else
    have hp : parent d k < n := Nat.lt_trans (parent_lt (Nat.pos_of_ne_zero h0)) hk
    if lt a[parent d k] v then (wrH hd v (some k)).map fun hd' => (a.set k v, hd')
    else
      match wrH hd a[parent d k] (some k) with
      | none => none
      | some hd' => aSiftUpFrom lt d v (a.set k a[parent d k]) hd' (parent d k) hp
termination_by k
decreasing_by exact parent_lt (Nat.pos_of_ne_zero h0)

def aSiftUp (lt : Nat → Nat → Bool) (d : Nat) {n : Nat} (a : Vector Nat n) (hd : Handles)
    (k : Nat) (hk : k < n) : Option (Vector Nat n × Handles) :=
  aSiftUpFrom lt d a[k] a hd k hk

/-- loop of `sift_down` with the handle writes -/
def aSiftDownFrom (lt : Nat → Nat → Bool) (d : Nat) (hd0 : 0 < d) (v : Nat) {n : Nat}
    (a : Vector Nat n) (hd : Handles) (k : Nat) (hk : k < n) : Option (Vector Nat n × Handles) :=
  if hl : left d k < n then
    if lt (a[(minChild lt d a k hl).1]'((minChild lt d a k hl).2.2)) v then
      match wrH hd (a[(minChild lt d a k hl).1]'((minChild lt d a k hl).2.2)) (some k) with
      | none => none
      | some hd' =>
        aSiftDownFrom lt d hd0 v (a.set k (a[(minChild lt d a k hl).1]'((minChild lt d a k hl).2.2))) hd'
          (minChild lt d a k hl).1 (minChild lt d a k hl).2.2
    else (wrH hd v (some k)).map fun hd' => (a.set k v, hd')
  else (wrH hd v (some k)).map fun hd' => (a.set k v, hd')
termination_by n - k
decreasing_by
  have := (minChild lt d a k hl).2.1
  have := (minChild lt d a k hl).2.2
  have := @left_gt d k hd0
  omega

def aSiftDown (lt : Nat → Nat → Bool) (d : Nat) (hd0 : 0 < d) {n : Nat} (a : Vector Nat n)
    (hd : Handles) (k : Nat) (hk : k < n) : Option (Vector Nat n × Handles) :=
  aSiftDownFrom lt d hd0 a[k] a hd k hk

/-! #### `heapify()` of the addressable heap: the same loops, additionally tracking `max_key` -/

/-- child scan of `heapify`, `max_key = std::max(max_key, heap_[j])` for every `j` looked at -/
def aMinChildFrom (lt : Nat → Nat → Bool) {n : Nat} (a : Vector Nat n) (lo right : Nat)
    (hr : right ≤ n) (l : Nat) (c : { c : Nat // lo ≤ c ∧ c < n }) (hl : lo ≤ l) (mk : Nat) :
    { c : Nat // lo ≤ c ∧ c < n } × Nat :=
  if h : l + 1 < right then
    have hl1 : l + 1 < n := Nat.lt_of_lt_of_le h hr
    aMinChildFrom lt a lo right hr (l + 1)
      (if lt a[l + 1] (a[c.1]'(c.2.2)) then ⟨l + 1, by omega, hl1⟩ else c) (by omega)
      (max mk a[l + 1])
  else (c, mk)
termination_by right - l

def aHeapifyDown (lt : Nat → Nat → Bool) (d : Nat) (hd : 0 < d) (v : Nat) {n : Nat} (h2 : 2 ≤ n)
    (a : Vector Nat n) (cur : Nat) (hcur : cur ≤ (n - 2) / d) (mk : Nat) : Vector Nat n × Nat :=
  have hl : left d cur < n := left_le_of_le_last h2 hcur
  have hc : cur < n := Nat.lt_trans (left_gt hd) hl
  -- max_key = max(max_key, heap_[l]); then the scan of the other children
  let r := aMinChildFrom lt a (left d cur) (min n (left d cur + d)) (Nat.min_le_left _ _) (left d cur)
            ⟨left d cur, Nat.le_refl _, hl⟩ (Nat.le_refl _) (max mk a[left d cur])
  if lt (a[r.1.1]'(r.1.2.2)) v then
    if hm : r.1.1 ≤ (n - 2) / d then
      aHeapifyDown lt d hd v h2 (a.set cur (a[r.1.1]'(r.1.2.2))) r.1.1 hm r.2
    else (((a.set cur (a[r.1.1]'(r.1.2.2))).set r.1.1 v r.1.2.2), r.2)
  else (a.set cur v, r.2)
termination_by n - cur
decreasing_by
  have h1 := (aMinChildFrom lt a (left d cur) (min n (left d cur + d)) (Nat.min_le_left _ _) (left d cur)
            ⟨left d cur, Nat.le_refl _, hl⟩ (Nat.le_refl _) (max mk a[left d cur])).1.2.1
  have h2 := (aMinChildFrom lt a (left d cur) (min n (left d cur + d)) (Nat.min_le_left _ _) (left d cur)
            ⟨left d cur, Nat.le_refl _, hl⟩ (Nat.le_refl _) (max mk a[left d cur])).1.2.2
  have := @left_gt d cur hd
  omega

def aHeapifyLoop (lt : Nat → Nat → Bool) (d : Nat) (hd : 0 < d) {n : Nat} (h2 : 2 ≤ n)
    (a : Vector Nat n) (i : Nat) (hi : i ≤ (n - 2) / d + 1) (mk : Nat) : Vector Nat n × Nat :=
  match i, hi with
  | 0, _ => (a, mk)
  | i + 1, hi =>
    have hcur : i ≤ (n - 2) / d := Nat.le_of_succ_le_succ hi
    have hl : left d i < n := left_le_of_le_last h2 hcur
    have hc : i < n := Nat.lt_trans (left_gt hd) hl
    -- value = heap_[cur]; max_key = max(max_key, value)
    let r := aHeapifyDown lt d hd a[i] h2 a i hcur (max mk a[i])
    aHeapifyLoop lt d hd h2 r.1 i (Nat.le_succ_of_le hcur) r.2

/-- the final loop of `heapify`: `for (i = 0; i < size; ++i) handles_[heap_[i]] = i` -/
def setHandles (a : List Nat) (i : Nat) (hd : Handles) : Option Handles :=
  match a with
  | [] => some hd
  | k :: rest =>
    match wrH hd k (some i) with
    | none => none
    | some hd' => setHandles rest (i + 1) hd'

structure AH where
  heap : Array Nat := #[]
  handles : Handles := #[]
  deriving Repr, Inhabited

/-- the `if (heap_.size() >= 2) { … }` block of `heapify()`: new array and `max_key` -/
def aHeapifyArr (lt : Nat → Nat → Bool) (d : Nat) (hd : 0 < d) {n : Nat} (a : Vector Nat n) (mk0 : Nat) :
    Vector Nat n × Nat :=
  if h2 : 2 ≤ n then aHeapifyLoop lt d hd h2 a ((n - 2) / d + 1) (Nat.le_refl _) mk0 else (a, mk0)

/-- `heapify()` -/
def AH.heapify (lt : Nat → Nat → Bool) (d : Nat) (hd : 0 < d) (s : AH) : Option AH :=
  let mk0 := match s.heap[0]? with | some x => x | none => 0   -- heap_.empty() ? 0 : heap_.front()
  let r : Vector Nat s.heap.size × Nat := aHeapifyArr lt d hd ⟨s.heap, rfl⟩ mk0
  let hs := growH s.handles (r.2 + 1)
  (setHandles r.1.toList 0 hs).map fun hs' => { heap := r.1.toArray, handles := hs' }

/-- `contains(key)` -/
def AH.contains (s : AH) (key : Nat) : Bool :=
  match s.handles[key]? with
  | some (some _) => true
  | _ => false

/-- `push(key)`; precondition `!contains(key)` (assert) -/
def AH.push (lt : Nat → Nat → Bool) (d : Nat) (s : AH) (key : Nat) : Option AH :=
  if s.contains key then none else
  let hs := if key ≥ s.handles.size then growH s.handles (key + 1) else s.handles
  match wrH hs key (some s.heap.size) with
  | none => none
  | some hs' =>
    (aSiftUp lt d (n := s.heap.size + 1) ⟨s.heap.push key, by simp⟩ hs' s.heap.size (Nat.lt_succ_self _)).map
      fun r => { heap := r.1.toArray, handles := r.2 }

/-- `remove(key)`; precondition `contains(key)` (assert) -/
def AH.remove (lt : Nat → Nat → Bool) (d : Nat) (hd0 : 0 < d) (s : AH) (key : Nat) : Option AH :=
  match s.handles[key]? with
  | some (some h) =>
    if hh : h < s.heap.size then
      -- std::swap(heap_[h], heap_.back()); handles_[heap_[h]] = h; handles_[heap_.back()] = not_present
      let sw := s.heap.swap h (s.heap.size - 1) hh (by omega)
      have hsw : sw.size = s.heap.size := by simp [sw]
      match wrH s.handles (sw[h]'(by omega)) (some h) with
      | none => none
      | some hs1 =>
        match wrH hs1 (sw[sw.size - 1]'(by omega)) none with
        | none => none
        | some hs2 =>
          let hp := sw.pop
          if hlt : h < hp.size then
            let v : Vector Nat hp.size := ⟨hp, rfl⟩
            let r :=
              if (if hz : h = 0 then false
                  else lt v[h] (v[parent d h]'(Nat.lt_trans (parent_lt (Nat.pos_of_ne_zero hz)) hlt)))
              then aSiftUp lt d v hs2 h hlt
              else aSiftDown lt d hd0 v hs2 h hlt
            r.map fun r => { heap := r.1.toArray, handles := r.2 }
          else some { heap := hp, handles := hs2 }
    else none
  | _ => none

/-- `top()` -/
def AH.top? (s : AH) : Option Nat := s.heap[0]?

/-- `pop()` = `remove(heap_[0])` -/
def AH.pop (lt : Nat → Nat → Bool) (d : Nat) (hd0 : 0 < d) (s : AH) : Option AH :=
  match s.heap[0]? with
  | some k => s.remove lt d hd0 k
  | none => none

/-- `update(key)` -/
def AH.update (lt : Nat → Nat → Bool) (d : Nat) (hd0 : 0 < d) (s : AH) (key : Nat) : Option AH :=
  match s.handles[key]? with
  | some (some h) =>
    if hh : h < s.heap.size then
      let v : Vector Nat s.heap.size := ⟨s.heap, rfl⟩
      let r :=
        if (if hz : h = 0 then false
            else lt v[h] (v[parent d h]'(Nat.lt_trans (parent_lt (Nat.pos_of_ne_zero hz)) hh)))
        then aSiftUp lt d v s.handles h hh
        else aSiftDown lt d hd0 v s.handles h hh
      r.map fun r => { heap := r.1.toArray, handles := r.2 }
    else none
  | _ => s.push lt d key

/-- `reserve(new_size)`: `if (handles_.size() < new_size) { handles_.resize(new_size, not_present());
heap_.reserve(new_size); }` — the handle table only grows (capacity of `heap_` is not modelled) -/
def AH.reserve (s : AH) (n : Nat) : AH :=
  if s.handles.size < n then { s with handles := growH s.handles n } else s

/-- `clear()` -/
def AH.clear (s : AH) : AH := { heap := #[], handles := Array.replicate s.handles.size none }

/-- `reset_handles()`: `for (key : heap_) handles_[key] = not_present()` -/
def resetHandles (a : List Nat) (hd : Handles) : Option Handles :=
  match a with
  | [] => some hd
  | k :: rest =>
    match wrH hd k none with
    | none => none
    | some hd' => resetHandles rest hd'

/-- `build_heap(keys)` (all three overloads): `reset_handles(); heap_ = keys; heapify()` -/
def AH.build (lt : Nat → Nat → Bool) (d : Nat) (hd0 : 0 < d) (s : AH) (keys : Array Nat) : Option AH :=
  match resetHandles s.heap.toList s.handles with
  | none => none
  | some hs => AH.heapify lt d hd0 { heap := keys, handles := hs }

/-- `update_all()` -/
def AH.updateAll (lt : Nat → Nat → Bool) (d : Nat) (hd0 : 0 < d) (s : AH) : Option AH :=
  AH.heapify lt d hd0 s

/-- `sanity_check()` as a function of the state: heap order, `handles_[heap_[l]] == l` for every
slot but the root (the root's handle is only *marked*), and the marks (= stored keys) are
exactly the keys with a present handle.  An empty heap is declared sane without looking. -/
def AH.sanity (lt : Nat → Nat → Bool) (d : Nat) (s : AH) : Bool :=
  s.heap.size == 0 ||
  ((List.range s.heap.size).all fun i =>
      i == 0 || (!(lt (s.heap[i]?.getD 0) (s.heap[parent d i]?.getD 0)) &&
                 (s.handles[s.heap[i]?.getD 0]?.join == some i))) &&
  ((List.range s.handles.size).all fun k =>
      (s.heap.contains k) == (s.handles[k]?.join).isSome)

end TlxVerif.C13
