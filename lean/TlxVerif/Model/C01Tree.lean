/-
C01/C02 — executable model of tlx/container/btree.hpp, part 1:
node type, in-node search, the query descents, iterators, insert (with leaf/inner split),
bulk_load, copy/clear and the allocation ledger.

Conventions
* `BNode` mirrors `struct node / InnerNode / LeafNode`: a leaf holds `slotdata[0..slotuse)`, an
  inner node its `level`, `slotkey[0..slotuse)` and `childid[0..slotuse]`.  Array slots beyond
  `slotuse` (stale copies) are not represented; pointers are replaced by positions, the leaf
  chain is the left-to-right sequence of leaves (trusted base, see notes/C01.md).
* Every recursive function takes the height `h` of the node as fuel (`h = level`); the public
  wrappers pass `root.level`.  This keeps all definitions structurally recursive on `Nat`.
* Places where the C++ would index out of bounds / dereference null return `none`
  (the property theorems show these are unreachable from states satisfying the invariant).
-/
import TlxVerif.Gen.C01Consts
namespace TlxVerif.C01

/-- template parameters of `BTree` that matter for behaviour -/
structure Params (K : Type) where
  leafMax : Nat            -- traits::leaf_slots
  innerMax : Nat           -- traits::inner_slots
  bin : Bool               -- sizeof(node) > traits::binsearch_threshold  (binary search in nodes)
  dup : Bool               -- allow_duplicates
  lt : K → K → Bool        -- key_less_

namespace Params
variable {K : Type} (p : Params K)
/-- `leaf_slotmin` / `inner_slotmin`: the formulas extracted from btree.hpp (Gen/C01Consts.lean) -/
def leafMin : Nat := Gen.leafSlotmin p.leafMax
def innerMin : Nat := Gen.innerSlotmin p.innerMax
/-- key_lessequal(a,b) = !key_less(b,a) -/
def le (a b : K) : Bool := !p.lt b a
/-- key_equal(a,b) -/
def eqv (a b : K) : Bool := !p.lt a b && !p.lt b a
end Params

inductive BNode (K V : Type) where
  | leaf (es : List (K × V))
  | inner (level : Nat) (keys : List K) (kids : List (BNode K V))

namespace BNode
variable {K V : Type}
def level : BNode K V → Nat
  | leaf _ => 0
  | inner l _ _ => l
def slotuse : BNode K V → Nat
  | leaf es => es.length
  | inner _ ks _ => ks.length
def isLeaf : BNode K V → Bool
  | leaf _ => true
  | inner .. => false
end BNode

variable {K V : Type}

/-- insert `x` before position `i` (`std::copy_backward` + store) -/
def insertAt {α : Type} (l : List α) (i : Nat) (x : α) : List α := l.take i ++ x :: l.drop i

/-! ### in-node search: `find_lower` / `find_upper` -/

/-- the linear loop `while (lo < slotuse && !stop(key(lo))) ++lo` -/
def linIdx (stop : K → Bool) (keys : List K) : Nat := keys.findIdx stop

/-- the binary loop `while (lo < hi) { mid = (lo+hi)>>1; if (stop(key(mid))) hi = mid; else lo = mid+1; }` -/
def binLoop (stop : K → Bool) (keys : List K) : Nat → Nat → Nat → Nat
  | 0, lo, _ => lo
  | fuel + 1, lo, hi =>
    if lo < hi then
      let mid := (lo + hi) / 2
      match keys[mid]? with
      | some x => if stop x then binLoop stop keys fuel lo mid else binLoop stop keys fuel (mid + 1) hi
      | none => lo
    else lo

def binIdx (stop : K → Bool) (keys : List K) : Nat :=
  if keys.length = 0 then 0 else binLoop stop keys (keys.length + 1) 0 keys.length

/-- `find_lower(n, key)`: first slot whose key is not less than `key` -/
def findLower (p : Params K) (keys : List K) (k : K) : Nat :=
  if p.bin then binIdx (fun x => p.le k x) keys else linIdx (fun x => !p.lt x k) keys

/-- `find_upper(n, key)`: first slot whose key is greater than `key` -/
def findUpper (p : Params K) (keys : List K) (k : K) : Nat :=
  if p.bin then binIdx (fun x => p.lt k x) keys else linIdx (fun x => !p.le x k) keys

/-! ### structure measures (by height) -/

def leafCount : Nat → BNode K V → Nat
  | _, .leaf _ => 1
  | 0, .inner .. => 0
  | h + 1, .inner _ _ kids => (kids.map (leafCount h)).sum

def innerCount : Nat → BNode K V → Nat
  | _, .leaf _ => 0
  | 0, .inner .. => 1
  | h + 1, .inner _ _ kids => 1 + (kids.map (innerCount h)).sum

/-- all entries in key order = what the leaf chain holds -/
def flatten : Nat → BNode K V → List (K × V)
  | _, .leaf es => es
  | 0, .inner .. => []
  | h + 1, .inner _ _ kids => kids.flatMap (flatten h)

/-- the leaf chain: the leaves from left to right -/
def chain : Nat → BNode K V → List (List (K × V))
  | _, .leaf es => [es]
  | 0, .inner .. => []
  | h + 1, .inner _ _ kids => kids.flatMap (chain h)

/-! ### tree object: `root_`, `stats_` -/

structure Stats where
  size : Nat := 0
  leaves : Nat := 0
  inner : Nat := 0
  deriving DecidableEq, Repr

structure Tree (K V : Type) where
  root : Option (BNode K V) := none
  stats : Stats := {}

/-- allocation ledger of one operation: nodes obtained from / returned to the allocator -/
structure Ledger where
  leafAlloc : Nat := 0
  leafFree : Nat := 0
  innerAlloc : Nat := 0
  innerFree : Nat := 0
  deriving DecidableEq, Repr

def Ledger.add (a b : Ledger) : Ledger :=
  ⟨a.leafAlloc + b.leafAlloc, a.leafFree + b.leafFree, a.innerAlloc + b.innerAlloc, a.innerFree + b.innerFree⟩

namespace Tree
def height (t : Tree K V) : Nat := match t.root with | some r => r.level | none => 0
def toList (t : Tree K V) : List (K × V) := match t.root with | some r => flatten r.level r | none => []
def leafChain (t : Tree K V) : List (List (K × V)) := match t.root with | some r => chain r.level r | none => []
def nLeaves (t : Tree K V) : Nat := match t.root with | some r => leafCount r.level r | none => 0
def nInner (t : Tree K V) : Nat := match t.root with | some r => innerCount r.level r | none => 0
end Tree

/-! ### iterators: `(curr_leaf, curr_slot)` with the leaf given by its index in the chain -/

/-- `none` = `curr_leaf == nullptr` -/
abbrev Pos := Option (Nat × Nat)

/-- `end()` = `(tail_leaf_, tail_leaf_ ? slotuse : 0)` -/
def endPos (ch : List (List (K × V))) : Pos :=
  match ch.getLast? with
  | some l => some (ch.length - 1, l.length)
  | none => none

/-- `begin()` = `(head_leaf_, 0)` -/
def beginPos (ch : List (List (K × V))) : Pos := if ch.isEmpty then none else some (0, 0)

/-- number of `++` steps from `begin()`: sum of the slot counts of the leaves before, plus the slot -/
def rankOf (ch : List (List (K × V))) : Pos → Nat
  | none => 0
  | some (li, s) => ((ch.take li).map List.length).sum + s

/-- `iterator::operator++` -/
def itInc (ch : List (List (K × V))) : Nat × Nat → Nat × Nat
  | (li, s) =>
    let use := (ch[li]?.map List.length).getD 0
    if s + 1 < use then (li, s + 1)
    else if li + 1 < ch.length then (li + 1, 0)
    else (li, use)

/-- `iterator::operator--` -/
def itDec (ch : List (List (K × V))) : Nat × Nat → Nat × Nat
  | (li, s) =>
    if s > 0 then (li, s - 1)
    else if li > 0 then (li - 1, (ch[li - 1]?.map List.length).getD 0 - 1)
    else (li, 0)

/-- `reverse_iterator::operator++` (`curr_slot` is one past the referenced slot) -/
def ritInc (ch : List (List (K × V))) : Nat × Nat → Nat × Nat
  | (li, s) =>
    if s > 1 then (li, s - 1)
    else if li > 0 then (li - 1, (ch[li - 1]?.map List.length).getD 0)
    else (li, 0)

/-- `reverse_iterator::operator--` -/
def ritDec (ch : List (List (K × V))) : Nat × Nat → Nat × Nat
  | (li, s) =>
    let use := (ch[li]?.map List.length).getD 0
    if s < use then (li, s + 1)
    else if li + 1 < ch.length then (li + 1, 1)
    else (li, use)

/-- `*it`; `none` when the slot is outside `[0, slotuse)` (the C++ reads a stale or foreign slot) -/
def deref (ch : List (List (K × V))) : Nat × Nat → Option (K × V)
  | (li, s) => (ch[li]?).bind (·[s]?)

/-- `*rit` = `slotdata[curr_slot - 1]`; `none` for `curr_slot = 0` (index −1 in the C++) -/
def rderef (ch : List (List (K × V))) : Nat × Nat → Option (K × V)
  | (li, s) => if s = 0 then none else (ch[li]?).bind (·[s - 1]?)

/-- `reverse_iterator(const iterator&)` and the other converting constructors between the forward
and the reverse classes: after the repair of `fix: btree iterator conversions` a position on a leaf
boundary is moved to the representation the target class uses
(forward: slot 0 of the next leaf; reverse: one past the last slot of the previous leaf). -/
def toReverse (ch : List (List (K × V))) : Nat × Nat → Nat × Nat
  | (li, s) =>
    if s = 0 ∧ li > 0 then (li - 1, (ch[li - 1]?.map List.length).getD 0) else (li, s)

def toForward (ch : List (List (K × V))) : Nat × Nat → Nat × Nat
  | (li, s) =>
    let use := (ch[li]?.map List.length).getD 0
    if s = use ∧ li + 1 < ch.length then (li + 1, 0) else (li, s)

/-- `n` applications of `f` (e.g. of `operator++`) -/
def iterN {α : Type} (f : α → α) : Nat → α → α
  | 0, a => a
  | n + 1, a => f (iterN f n a)

/-! ### query descents -/

/-- descend with `sel` choosing the child slot; returns (index of the leaf in the chain, its entries) -/
def descend (sel : List K → Nat) : Nat → BNode K V → Option (Nat × List (K × V))
  | _, .leaf es => some (0, es)
  | 0, .inner .. => none
  | h + 1, .inner _ keys kids =>
    let slot := sel keys
    match kids[slot]? with
    | none => none
    | some c =>
      match descend sel h c with
      | none => none
      | some (li, es) => some (((kids.take slot).map (leafCount h)).sum + li, es)

variable (p : Params K)

def keysOf (es : List (K × V)) : List K := es.map Prod.fst

/-- `lower_bound(key)` -/
def lowerBound (t : Tree K V) (k : K) : Option Pos :=
  match t.root with
  | none => some none
  | some r =>
    match descend (V := V) (fun ks => findLower p ks k) r.level r with
    | none => none
    | some (li, es) => some (some (li, findLower p (keysOf es) k))

/-- `upper_bound(key)` -/
def upperBound (t : Tree K V) (k : K) : Option Pos :=
  match t.root with
  | none => some none
  | some r =>
    match descend (V := V) (fun ks => findUpper p ks k) r.level r with
    | none => none
    | some (li, es) => some (some (li, findUpper p (keysOf es) k))

/-- `find(key)`: position of the first equivalent entry or `end()` -/
def find (t : Tree K V) (k : K) : Option Pos :=
  match t.root with
  | none => some none
  | some r =>
    match descend (V := V) (fun ks => findLower p ks k) r.level r with
    | none => none
    | some (li, es) =>
      let slot := findLower p (keysOf es) k
      match es[slot]? with
      | some e => if p.eqv k e.1 then some (some (li, slot)) else some (endPos t.leafChain)
      | none => some (endPos t.leafChain)

/-- `exists(key)` -/
def existsKey (t : Tree K V) (k : K) : Option Bool :=
  match t.root with
  | none => some false
  | some r =>
    match descend (V := V) (fun ks => findLower p ks k) r.level r with
    | none => none
    | some (_, es) =>
      let slot := findLower p (keysOf es) k
      match es[slot]? with
      | some e => some (p.eqv k e.1)
      | none => some false

/-- the counting loop of `count()`: walk the chain while the key is equivalent -/
def countLoop (ch : List (List (K × V))) (k : K) : Nat → Nat → Nat → Nat → Nat
  | 0, _, _, num => num
  | fuel + 1, li, slot, num =>
    match ch[li]? with
    | none => num                                   -- leaf == nullptr
    | some leaf =>
      match leaf[slot]? with
      | none => num                                 -- slot >= slotuse
      | some e =>
        if p.eqv k e.1 then
          if slot + 1 ≥ leaf.length then countLoop ch k fuel (li + 1) 0 (num + 1)
          else countLoop ch k fuel li (slot + 1) (num + 1)
        else num

/-- `count(key)` -/
def count (t : Tree K V) (k : K) : Option Nat :=
  match t.root with
  | none => some 0
  | some r =>
    match descend (V := V) (fun ks => findLower p ks k) r.level r with
    | none => none
    | some (li, es) =>
      some (countLoop p t.leafChain k (t.stats.size + t.leafChain.length + 2) li (findLower p (keysOf es) k) 0)

/-! ### insert -/

/-- what `insert_descend` hands back: the updated node, the split sibling with its key
(`*splitkey`, `*splitnode`), the `pair<iterator,bool>` and the allocations made -/
structure InsOut (K V : Type) where
  node : BNode K V
  split : Option (K × BNode K V)
  inserted : Bool
  leafIdx : Nat          -- leaf of the returned iterator, counted over `node` followed by the split sibling
  slot : Nat
  newLeaves : Nat
  newInner : Nat

/-- `slot < leaf->slotuse && key_equal(key, leaf->key(slot))` -/
def presentAt (es : List (K × V)) (slot : Nat) (k : K) : Bool :=
  match es[slot]? with
  | some e => p.eqv k e.1
  | none => false

/-- `split_leaf_node` followed by the insertion into the half that holds `slot` -/
def splitLeafInsert (es : List (K × V)) (slot : Nat) (k : K) (v : V) : Option (InsOut K V) :=
  let mid := es.length / 2
  let left := es.take mid
  let right := es.drop mid
  match left.getLast? with
  | none => none                                 -- leaf->key(leaf->slotuse - 1) with slotuse = 0
  | some lastL =>
    if slot ≥ mid then
      some { node := .leaf left, split := some (lastL.1, .leaf (insertAt right (slot - mid) (k, v))),
             inserted := true, leafIdx := 1, slot := slot - mid, newLeaves := 1, newInner := 0 }
    else
      let left' := insertAt left slot (k, v)
      -- "the insert is at the last slot of the old node: the splitkey must be updated"
      let sk := if slot = left'.length - 1 then k else lastL.1
      some { node := .leaf left', split := some (sk, .leaf right),
             inserted := true, leafIdx := 0, slot := slot, newLeaves := 1, newInner := 0 }

/-- the leaf part of `insert_descend` -/
def leafInsert (es : List (K × V)) (k : K) (v : V) : Option (InsOut K V) :=
  let slot := findLower p (keysOf es) k
  if !p.dup && presentAt p es slot k then
    some { node := .leaf es, split := none, inserted := false, leafIdx := 0, slot := slot, newLeaves := 0, newInner := 0 }
  else if es.length = p.leafMax then
    splitLeafInsert es slot k v
  else
    some { node := .leaf (insertAt es slot (k, v)), split := none, inserted := true, leafIdx := 0, slot := slot,
           newLeaves := 0, newInner := 0 }

/-- the split position chosen by `split_inner_node(inner, ..., addslot)` for a node with `n` keys:
"if the split is uneven and the overflowing item will be put into the larger node, then the
smaller split node may underflow" -/
def splitMid (n slot : Nat) : Nat :=
  if slot ≤ n / 2 ∧ n / 2 > n - (n / 2 + 1) then n / 2 - 1 else n / 2

/-- `split_inner_node` at `mid` followed by the three ways `insert_descend` places
`(newkey, newchild)` behind child `slot` -/
def splitInnerAbsorb (l : Nat) (keys : List K) (kids : List (BNode K V)) (slot : Nat) (newkey : K)
    (newchild : BNode K V) (mid : Nat) : Option (BNode K V × Option (K × BNode K V) × Nat) :=
  match keys[mid]? with
  | none => none
  | some upKey =>
    let leftKeys := keys.take mid
    let rightKeys := keys.drop (mid + 1)
    let leftKids := kids.take (mid + 1)
    let rightKids := kids.drop (mid + 1)
    if slot = mid + 1 ∧ mid < rightKeys.length then
      -- the insert slot is the split place: the insert key becomes the split key
      match rightKids with
      | [] => none
      | c0 :: rest =>
        some (.inner l (leftKeys ++ [upKey]) (leftKids ++ [c0]), some (newkey, .inner l rightKeys (newchild :: rest)), 1)
    else if slot ≥ mid + 1 then
      let s := slot - (mid + 1)
      some (.inner l leftKeys leftKids,
            some (upKey, .inner l (insertAt rightKeys s newkey) (insertAt rightKids (s + 1) newchild)), 1)
    else
      some (.inner l (insertAt leftKeys slot newkey) (insertAt leftKids (slot + 1) newchild),
            some (upKey, .inner l rightKeys rightKids), 1)

/-- the inner part of `insert_descend` after the child at `slot` was split into `kids[slot]` and
`newchild` with separator `newkey` (with `split_inner_node` when the node is full):
returns the node, its split sibling with the key that moves up, and the number of inner nodes allocated -/
def innerAbsorb (l : Nat) (keys : List K) (kids : List (BNode K V)) (slot : Nat) (newkey : K) (newchild : BNode K V) :
    Option (BNode K V × Option (K × BNode K V) × Nat) :=
  if keys.length = p.innerMax then
    splitInnerAbsorb l keys kids slot newkey newchild (splitMid keys.length slot)
  else
    some (.inner l (insertAt keys slot newkey) (insertAt kids (slot + 1) newchild), none, 0)

/-- `insert_descend(n, key, value, splitkey, splitnode)` -/
def insertDescend (k : K) (v : V) : Nat → BNode K V → Option (InsOut K V)
  | _, .leaf es => leafInsert p es k v
  | 0, .inner .. => none
  | h + 1, .inner l keys kids =>
    let slot := findLower p keys k
    match kids[slot]? with
    | none => none
    | some child =>
      match insertDescend k v h child with
      | none => none
      | some r =>
        let kids1 := kids.set slot r.node
        let li := ((kids.take slot).map (leafCount h)).sum + r.leafIdx
        match r.split with
        | none =>
          some { node := .inner l keys kids1, split := none, inserted := r.inserted, leafIdx := li, slot := r.slot,
                 newLeaves := r.newLeaves, newInner := r.newInner }
        | some (newkey, newchild) =>
          match innerAbsorb p l keys kids1 slot newkey newchild with
          | none => none
          | some (node, split, ni) =>
            some { node := node, split := split, inserted := r.inserted, leafIdx := li, slot := r.slot,
                   newLeaves := r.newLeaves, newInner := r.newInner + ni }

/-- result of a public mutating call -/
structure InsResult (K V : Type) where
  tree : Tree K V
  inserted : Bool
  pos : Nat × Nat
  ledger : Ledger

/-- `insert_start(key, value)` -/
def insert (t : Tree K V) (k : K) (v : V) : Option (InsResult K V) :=
  let (root, a0) := match t.root with
    | some r => (r, 0)
    | none => (BNode.leaf [], 1)                      -- root_ = head_leaf_ = tail_leaf_ = allocate_leaf()
  match insertDescend p k v root.level root with
  | none => none
  | some r =>
    let (root', i1) := match r.split with
      | none => (r.node, 0)
      | some (newkey, newchild) => (BNode.inner (root.level + 1) [newkey] [r.node, newchild], 1)
    let la := a0 + r.newLeaves
    let ia := r.newInner + i1
    some { tree := { root := some root',
                     stats := { size := if r.inserted then t.stats.size + 1 else t.stats.size,
                                leaves := t.stats.leaves + la, inner := t.stats.inner + ia } },
           inserted := r.inserted, pos := (r.leafIdx, r.slot),
           ledger := { leafAlloc := la, innerAlloc := ia } }

/-! ### bulk_load -/

/-- the distribution loop `for i < parts: take (remaining / (parts - i))` -/
def distribute {α : Type} : Nat → List α → List (List α)
  | 0, _ => []
  | parts + 1, items =>
    let n := items.length / (parts + 1)
    items.take n :: distribute parts (items.drop n)

/-- one inner node over a group of (child, max key of the child's subtree) -/
def mkInner (lvl : Nat) (grp : List (BNode K V × K)) : Option (BNode K V × K) :=
  match grp.getLast? with
  | none => none                                     -- n->slotuse == 0 before the decrement
  | some lastC => some (.inner lvl ((grp.dropLast).map Prod.snd) (grp.map Prod.fst), lastC.2)

/-- one level of inner nodes above `children` -/
def buildLevel (lvl : Nat) (children : List (BNode K V × K)) : Option (List (BNode K V × K)) :=
  let numParents := (children.length + (p.innerMax + 1) - 1) / (p.innerMax + 1)
  (distribute numParents children).mapM (mkInner lvl)

/-- `for (level = 2; num_parents != 1; ++level)` -/
def buildUp : Nat → Nat → List (BNode K V × K) → Option (BNode K V × Nat)
  | 0, _, _ => none
  | fuel + 1, lvl, nodes =>
    match nodes with
    | [(n, _)] => some (n, 0)
    | _ =>
      match buildLevel p lvl nodes with
      | none => none
      | some ps =>
        match buildUp fuel (lvl + 1) ps with
        | none => none
        | some (r, cnt) => some (r, cnt + ps.length)

/-- `bulk_load(ibegin, iend)` on an empty tree -/
def bulkLoad (es : List (K × V)) : Option (Tree K V × Ledger) :=
  let numLeaves := (es.length + p.leafMax - 1) / p.leafMax
  let groups := distribute numLeaves es
  match groups with
  | [] => some ({ root := none, stats := { size := es.length } }, {})
  | [g] => some ({ root := some (.leaf g), stats := { size := es.length, leaves := 1 } }, { leafAlloc := 1 })
  | _ =>
    match groups.mapM (fun g => (g.getLast?).map (fun e => (BNode.leaf g, e.1))) with
    | none => none
    | some lv0 =>
      match buildLevel p 1 lv0 with
      | none => none
      | some lv1 =>
        match buildUp p (lv1.length + 1) 2 lv1 with
        | none => none
        | some (r, cnt) =>
          some ({ root := some r, stats := { size := es.length, leaves := numLeaves, inner := lv1.length + cnt } },
                { leafAlloc := numLeaves, innerAlloc := lv1.length + cnt })

/-! ### clear, copy, assignment, swap -/

/-- `clear()` -/
def clear (t : Tree K V) : Tree K V × Ledger :=
  match t.root with
  | some _ => ({ root := none, stats := {} }, { leafFree := t.nLeaves, innerFree := t.nInner })
  | none => (t, {})

/-- copy constructor `BTree(const BTree& other)` -/
def copyCtor (o : Tree K V) : Tree K V × Ledger :=
  if o.stats.size > 0 then
    match o.root with
    | some r => ({ root := some r, stats := { size := o.stats.size, leaves := o.nLeaves, inner := o.nInner } },
                 { leafAlloc := o.nLeaves, innerAlloc := o.nInner })
    | none => ({ root := none, stats := { size := o.stats.size } }, {})
  else ({ root := none, stats := o.stats }, {})

/-- `operator=(const BTree& other)` for `this != &other` -/
def assign (t o : Tree K V) : Tree K V × Ledger :=
  let (t1, l1) := clear t
  if o.stats.size ≠ 0 then
    match o.root with
    | some r => ({ root := some r, stats := o.stats }, l1.add { leafAlloc := o.nLeaves, innerAlloc := o.nInner })
    | none => ({ root := t1.root, stats := o.stats }, l1)
  else (t1, l1)

end TlxVerif.C01
