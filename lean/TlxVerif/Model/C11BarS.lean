/-
C11 — tlx::ThreadBarrierSpin as a labelled transition system (conventions of
Model/C10Pool.lean).  Thread 0 = main, thread i ≥ 1 calls `wait(action)` (or
`wait_yield(action)` when `yielding`) `gens` times.

    size_t this_step = step_.load(acquire);
    if (waiting_.fetch_add(1, acq_rel) == thread_count_) {     // thread_count_ = n - 1
        waiting_.store(0, release);
        lambda();
        step_.fetch_add(1, acq_rel);
    } else {
        while (step_.load(acquire) == this_step) { /* wait_yield: std::this_thread::yield(); */ }
    }

A thread that re-reads `step_` in the spin loop without an intervening change of
`step_` is treated as blocked until `step_` changes (scheduler fairness
assumption, see harness/detsched/sched.hpp): `spin ts true` is enabled iff
`step ≠ ts`.

Ghost state: per thread `arrived` / `left`, global `begun` / `actions` (actions begun / ended).

The action is a multi-step action: it begins (`actB`) after `waiting_.store(0)`, takes `actYields`
scheduling points (`act j`) and ends (`actE`) before `step_.fetch_add(1)` publishes the new generation.
-/
import TlxVerif.Model.C10Sched
namespace TlxVerif.C11.BarS
open TlxVerif.Sched (StepOut)

inductive Pc
  | start | finished
  | mSpawn (i : Nat) | mJoin (i : Nat)
  | loadStep                         -- this_step = step_.load()
  | fetchAdd (ts : Nat)              -- waiting_.fetch_add(1)
  | storeWaiting                     -- waiting_.store(0)
  | act (j : Nat)                    -- inside lambda(): `j` more scheduling points of the action to go
  | bumpStep                         -- step_.fetch_add(1)   (after lambda())
  | spin (ts : Nat) (seen : Bool)    -- step_.load() in the loop; seen = already read the unchanged value
  | yield (ts : Nat)                 -- std::this_thread::yield()
  deriving DecidableEq, Repr, Inhabited

structure Thread where
  pc : Pc
  arrived : Nat := 0
  left : Nat := 0
  deriving Repr, Inhabited

structure State where
  n : Nat
  gens : Nat
  yielding : Bool
  waiting : Nat := 0
  step : Nat := 0
  spawned : Nat := 0
  thr : List Thread
  /-- scheduling points inside the action -/
  actYields : Nat := 0
  /-- ghost: actions begun / actions ended -/
  begun : Nat := 0
  actions : Nat := 0
  deriving Repr

def init (n gens : Nat) (yielding : Bool) (actYields : Nat := 0) : State :=
  { n := n, gens := gens, yielding := yielding, actYields := actYields, thr := { pc := .start } :: List.replicate n { pc := .start } }

def pcOf (s : State) (t : Nat) : Pc := (s.thr[t]?.map (·.pc)).getD .finished
/-- update the record of thread `t` -/
def upd (s : State) (t : Nat) (f : Thread → Thread) : State := { s with thr := s.thr.modify t f }
def setPc (s : State) (t : Nat) (pc : Pc) : State := upd s t fun th => { th with pc := pc }
def ev (t : Nat) (e : String) : String := s!"{t}:{e}"

def enabled (s : State) (t : Nat) : Bool :=
  match pcOf s t with
  | .finished => false
  | .start => t ≤ s.spawned
  | .spin ts seen => !seen || s.step != ts
  | .mJoin i => pcOf s (i + 1) == .finished
  | _ => true

def spurCand (_s : State) (_t : Nat) : Bool := false

def unfinished (s : State) (t : Nat) : Bool :=
  t < s.thr.length && t ≤ s.spawned && pcOf s t != .finished

/-- where the releaser goes when the action begins: without scheduling points inside, the action also ends in
    the same step -/
def beginPc (s : State) : Pc := if s.actYields = 0 then .bumpStep else .act s.actYields
def beginEnded (s : State) : Nat := if s.actYields = 0 then s.actions + 1 else s.actions
def beginEvs (s : State) (t : Nat) : List String := if s.actYields = 0 then [ev t s!"actE{s.actions}"] else []

def out (s : State) (evs : List String) : Option (StepOut State) := some { st := s, evs := evs }

/-- pc after `wait()` returned for the (left+1)-th time -/
def nextCall (s : State) (th : Thread) : Pc := if th.left + 1 < s.gens then .loadStep else .finished

def step (s : State) (t : Nat) (_c : Nat) : Option (StepOut State) :=
  match s.thr[t]? with
  | none => none
  | some th =>
  match th.pc with
  | .finished => none
  | .start =>
    if t > s.spawned then none
    else if t = 0 then out (setPc s t (.mSpawn 0)) [ev t "start"]
    else out (setPc s t (if s.gens = 0 then .finished else .loadStep)) [ev t "start"]
  | .mSpawn i =>
    out (setPc { s with spawned := i + 1 } t (if i + 1 < s.n then .mSpawn (i + 1) else .mJoin 0)) [ev t s!"spawn({i + 1})"]
  | .mJoin i =>
    if pcOf s (i + 1) == .finished then
      if i + 1 < s.n then out (setPc s t (.mJoin (i + 1))) [ev t s!"join({i + 1})"]
      else out (setPc s t .finished) [ev t s!"join({i + 1})", ev t "end"]
    else none
  | .loadStep => out (setPc s t (.fetchAdd s.step)) [ev t s!"ld(step)={s.step}"]
  | .fetchAdd ts =>
    -- waiting_.fetch_add(1) == thread_count_   (thread_count_ = n - 1)
    let nxt : Pc := if s.waiting = s.n - 1 then .storeWaiting else .spin ts false
    out (upd { s with waiting := s.waiting + 1 } t fun th => { th with pc := nxt, arrived := th.arrived + 1 })
        [ev t s!"rmw(waiting)={s.waiting + 1}"]
  | .storeWaiting =>
    -- waiting_.store(0); lambda();
    -- the action begins; without scheduling points inside it also ends in this step
    out (setPc { s with waiting := 0, begun := s.begun + 1, actions := beginEnded s } t (beginPc s))
        ([ev t "st(waiting)=0", ev t s!"actB{s.begun}"] ++ beginEvs s t)
  | .act j =>
    if j ≤ 1 then out (setPc { s with actions := s.actions + 1 } t .bumpStep) [ev t "yield", ev t s!"actE{s.actions}"]
    else out (setPc s t (.act (j - 1))) [ev t "yield"]
  | .bumpStep =>
    -- step_.fetch_add(1); return
    out (upd { s with step := s.step + 1 } t fun th => { th with left := th.left + 1, pc := nextCall s th })
        [ev t s!"rmw(step)={s.step + 1}", ev t s!"left{th.left}"]
  | .spin ts seen =>
    if !seen || s.step != ts then
      if s.step != ts then
        out (upd s t fun th => { th with left := th.left + 1, pc := nextCall s th }) [ev t s!"ld(step)={s.step}", ev t s!"left{th.left}"]
      else out (setPc s t (if s.yielding then .yield ts else .spin ts true)) [ev t s!"ld(step)={s.step}"]
    else none
  | .yield ts => out (setPc s t (.spin ts true)) [ev t "yield"]

def lts : TlxVerif.Sched.LTS State where
  nthreads := fun s => s.thr.length
  unfinished := unfinished
  enabled := enabled
  spurCand := spurCand
  step := step

end TlxVerif.C11.BarS
