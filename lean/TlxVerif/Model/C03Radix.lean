/-
C03 — tlx/sort/strings/radix_sort.hpp and the front-end tlx/sort/strings.hpp.

A `RadixStep_*` constructor becomes one distribution (`scatterBuckets` out of place,
`permuteInPlace` in place) plus the LCP stores of the step;
the explicit `radixstack` loop becomes recursion over the buckets `1 … R-1` of a step (`level` =
`radixstack.size()` while the step is on top, needed for the memory accounting), each bucket being
handled by the branch the C++ loop takes for it.  `memory` is the `size_t` argument (0 = no limit).
-/
import TlxVerif.Model.C03Mkqs
namespace TlxVerif.C03

variable {α : Type} (str : α → Str)

/-- which sorter the loop hands a bucket to -/
abbrev Sorter (α : Type) := Nat → List α → List Nat → List α × List Nat   -- depth, strings, lcp view

/-- walk over the buckets of one step: `f idx bucket lcpView` -/
def mapBuckets (bs : List (List α)) (views : List (List Nat))
    (f : Nat → List α → List Nat → List α × List Nat) : List α × List Nat :=
  let res := (bs.zip views).zipIdx.map fun p => f p.2 p.1.1 p.1.2
  (res.flatMap Prod.fst, res.flatMap Prod.snd)

/-! ### out-of-place 8-bit steps (RadixStep_CE0 / RadixStep_CE2 are the same function; CE2 only
caches the characters) -/

/-- `radixsort_CE0_loop` / `radixsort_CE2_loop` (radix_sort.hpp:113-162, 271-321) from the step on
top of the stack downwards; `step` = sizeof(RadixStep) -/
def ce8Loop (c : Consts) (withLcp : Bool) (step : Nat) :
    Nat → List α → List Nat → Nat → Nat → Nat → List α × List Nat
  | 0, ss, l, _, _, _ => (ss, l)
  | fuel + 1, ss, l, depth, level, memory =>
    let bs := scatterBuckets 256 (fun x => key8 (str x) depth) ss
    let sizes := bs.map List.length
    let l1 := if withLcp then stepLcp8 sizes ss.length depth l else l
    mapBuckets bs (splitBy sizes l1) fun idx b v =>
      if idx = 0 then (b, v)                      -- finished strings, copied back
      else if b.length = 0 then (b, v)
      else if b.length < inssortThreshold then
        insertionSort str withLcp (depth + 1) b v
      else if memory ≠ 0 ∧ memory < step * (level + 1) then
        multikeyQuicksort str c withLcp (depth + 1) b v (wsub memory (step * level))
      else ce8Loop c withLcp step fuel b v (depth + 1) (level + 1) memory

/-- enough fuel: a step is only pushed for strings that are longer than the current depth -/
def radixFuel (ss : List α) : Nat := (ss.map fun x => (str x).length).foldl max 0 + 2

/-! ### in-place 8-bit step -/

/-- inner `while ((j = --bkt[permch]) > i) { swap(perm, ss[j]); swap(permch, charcache[j]); }`
on `(element, cached char)` pairs; returns the array, the counters, the element in hand -/
def permInner (i : Nat) : Nat → Array (α × Nat) → Array Nat → (α × Nat) → Array (α × Nat) × Array Nat × (α × Nat)
  | 0, arr, bkt, perm => (arr, bkt, perm)
  | fuel + 1, arr, bkt, perm =>
    let j := bkt.getD perm.2 0 - 1
    let bkt := bkt.setIfInBounds perm.2 j
    if j > i then
      match arr[j]? with
      | some y => permInner i fuel (arr.setIfInBounds j perm) bkt y
      | none => (arr, bkt, perm)
    else (arr, bkt, perm)

/-- `for (size_t i = 0, j; i < size - last_bkt_size;) { … i += bkt_size[permch]; }` -/
def permOuter (sizes : Array Nat) (limit : Nat) : Nat → Nat → Array (α × Nat) → Array Nat → Array (α × Nat)
  | 0, _, arr, _ => arr
  | fuel + 1, i, arr, bkt =>
    if i < limit then
      match arr[i]? with
      | some perm =>
        let (arr, bkt, perm) := permInner i (arr.size + 1) arr bkt perm
        let arr := arr.setIfInBounds i perm
        if sizes.getD perm.2 0 = 0 then arr   -- cannot happen; keeps the recursion honest
        else permOuter sizes limit fuel (i + sizes.getD perm.2 0) arr bkt
      | none => arr
    else arr

/-- counting, inclusive prefix sum, in-place permutation of RadixStep_CI2 / RadixStep_CI3
(radix_sort.hpp:573-604, 743-797) -/
def permuteInPlace (R : Nat) (key : α → Nat) (ss : List α) : List α × List Nat :=
  let arr := (ss.map fun x => (x, key x)).toArray
  let sizes := arr.foldl (fun acc p => acc.modify p.2 (· + 1)) (Array.replicate R 0)
  -- inclusive prefix sum and the size of the last non-empty bucket
  let (bktRev, _, last) := sizes.toList.foldl
    (fun (st : List Nat × Nat × Nat) s => (( st.2.1 + s) :: st.1, st.2.1 + s, if s ≠ 0 then s else st.2.2))
    ([], 0, 0)
  let bkt := bktRev.reverse.toArray
  let out := permOuter sizes (arr.size - last) (arr.size + 1) 0 arr bkt
  (out.toList.map Prod.fst, sizes.toList)

/-- `radixsort_CI2(strptr, charcache, depth, memory)` (radix_sort.hpp:638-689) -/
def ci2Loop (c : Consts) (withLcp : Bool) :
    Nat → List α → List Nat → Nat → Nat → Nat → List α × List Nat
  | 0, ss, l, _, _, _ => (ss, l)
  | fuel + 1, ss, l, depth, level, memory =>
    let (perm, sizes) := permuteInPlace 256 (fun x => key8 (str x) depth) ss
    let l1 := if withLcp then stepLcp8 sizes ss.length depth l else l
    mapBuckets (splitBy sizes perm) (splitBy sizes l1) fun idx b v =>
      if idx = 0 then (b, v)
      else if b.length ≤ 1 then (b, v)
      else if b.length < inssortThreshold then
        insertionSort str withLcp (depth + 1) b v
      else if memory ≠ 0 ∧ memory < c.stepCI2 * (level + 1) then
        multikeyQuicksort str c withLcp (depth + 1) b v (wsub memory (c.stepCI2 * level))
      else ci2Loop c withLcp fuel b v (depth + 1) (level + 1) memory

/-- `radixsort_CI2(strptr, depth, memory)` (radix_sort.hpp:694-718) -/
def radixsortCI2 (c : Consts) (withLcp : Bool) (depth : Nat) (ss : List α) (l : List Nat)
    (memory : Nat) : List α × List Nat :=
  if ss.length < inssortThreshold then insertionSort str withLcp depth ss l
  else
    let memoryUse := 2 * 8 + c.szSet + ss.length * 1
    let memorySlack := 3 * c.stepCI2
    if memory ≠ 0 ∧ memory < memoryUse + memorySlack + 1 then
      multikeyQuicksort str c withLcp depth ss l memory
    else ci2Loop str c withLcp (radixFuel str ss) ss l depth 1 (wsub memory memoryUse)

/-! ### in-place 16-bit step -/

/-- `radixsort_CI3(strptr, charcache, depth, memory)` (radix_sort.hpp:818-890) -/
def ci3Loop (c : Consts) (withLcp : Bool) :
    Nat → List α → List Nat → Nat → Nat → Nat → List α × List Nat
  | 0, ss, l, _, _, _ => (ss, l)
  | fuel + 1, ss, l, depth, level, memory =>
    let (perm, sizes) := permuteInPlace 65536 (fun x => key16 (str x) depth) ss
    let l1 := if withLcp then stepLcp16 sizes depth l else l
    mapBuckets (splitBy sizes perm) (splitBy sizes l1) fun idx b v =>
      if idx = 0 then (b, v)
      else if b.length ≤ 1 then (b, v)
      else if idx &&& 0xFF = 0 then
        -- zero-termination
        (b, if withLcp then setRange v 1 b.length (depth + 1) else v)
      else if b.length < inssortThreshold then
        insertionSort str withLcp (depth + 2) b v
      else if b.length < 65536 then
        ci2Loop str c withLcp (radixFuel str b) b v (depth + 2) 1 (wsub memory (c.stepCI3 * level))
      else if memory ≠ 0 ∧ memory < c.stepCI3 * (level + 1) then
        multikeyQuicksort str c withLcp (depth + 2) b v (wsub memory (c.stepCI3 * level))
      else ci3Loop c withLcp fuel b v (depth + 2) (level + 1) memory

/-- `radixsort_CI3(strptr, depth, memory)` (radix_sort.hpp:892-922) -/
def radixsortCI3 (c : Consts) (withLcp : Bool) (depth : Nat) (ss : List α) (l : List Nat)
    (memory : Nat) : List α × List Nat :=
  if ss.length < inssortThreshold then insertionSort str withLcp depth ss l
  else if ss.length < 65536 then radixsortCI2 str c withLcp depth ss l memory
  else
    let memoryUse := 2 * 8 + c.szSet + ss.length * 2
    let memorySlack := 3 * c.stepCI3
    if memory ≠ 0 ∧ memory < memoryUse + memorySlack + 1 then
      radixsortCI2 str c withLcp depth ss l memory
    else ci3Loop str c withLcp (radixFuel str ss) ss l depth 1 (wsub memory memoryUse)

/-! ### the out-of-place adapters -/

/-- `radixsort_CE0` (radix_sort.hpp:167-190) -/
def radixsortCE0 (c : Consts) (withLcp : Bool) (depth : Nat) (ss : List α) (l : List Nat)
    (memory : Nat) : List α × List Nat :=
  if ss.length < inssortThreshold then insertionSort str withLcp depth ss l
  else
    let memoryUse := 2 * 8 + c.szSet + ss.length * c.szStr
    let memorySlack := 3 * c.stepCE0
    if memory ≠ 0 ∧ memory < memoryUse + memorySlack + 1 then
      multikeyQuicksort str c withLcp depth ss l memory
    else ce8Loop str c withLcp c.stepCE0 (radixFuel str ss) ss l depth 1 (wsub memory memoryUse)

/-- `radixsort_CE2` (radix_sort.hpp:323-351) -/
def radixsortCE2 (c : Consts) (withLcp : Bool) (depth : Nat) (ss : List α) (l : List Nat)
    (memory : Nat) : List α × List Nat :=
  if ss.length < inssortThreshold then insertionSort str withLcp depth ss l
  else
    let memoryUse := 2 * 8 + c.szSet + ss.length * 1 + ss.length * c.szStr
    let memorySlack := 3 * c.stepCE2
    if memory ≠ 0 ∧ memory < memoryUse + memorySlack + 1 then
      radixsortCI3 str c withLcp depth ss l memory
    else ce8Loop str c withLcp c.stepCE2 (radixFuel str ss) ss l depth 1 (wsub memory memoryUse)

/-- `radixsort_CE3_loop` (radix_sort.hpp:441-513) -/
def ce3Loop (c : Consts) (withLcp : Bool) :
    Nat → List α → List Nat → Nat → Nat → Nat → List α × List Nat
  | 0, ss, l, _, _, _ => (ss, l)
  | fuel + 1, ss, l, depth, level, memory =>
    let bs := scatterBuckets 65536 (fun x => key16 (str x) depth) ss
    let sizes := bs.map List.length
    let l1 := if withLcp then stepLcp16 sizes depth l else l
    mapBuckets bs (splitBy sizes l1) fun idx b v =>
      if idx = 0 then (b, v)
      else if b.length = 0 then (b, v)
      else if idx &&& 0xFF = 0 then
        -- zero-termination
        (b, if withLcp then setRange v 1 b.length (depth + 1) else v)
      else if b.length < inssortThreshold then
        insertionSort str withLcp (depth + 2) b v
      else if b.length < 65536 then
        ce8Loop str c withLcp c.stepCE2 (radixFuel str b) b v (depth + 2) 1 (wsub memory (c.stepCE3 * level))
      else if memory ≠ 0 ∧ memory < c.stepCE3 * (level + 1) then
        multikeyQuicksort str c withLcp (depth + 2) b v (wsub memory (c.stepCE3 * level))
      else ce3Loop c withLcp fuel b v (depth + 2) (level + 1) memory

/-- `radixsort_CE3` (radix_sort.hpp:515-552) -/
def radixsortCE3 (c : Consts) (withLcp : Bool) (depth : Nat) (ss : List α) (l : List Nat)
    (memory : Nat) : List α × List Nat :=
  if ss.length < inssortThreshold then insertionSort str withLcp depth ss l
  else if ss.length < 65536 then radixsortCE2 str c withLcp depth ss l memory
  else
    let memoryUse := 2 * 8 + c.szSet + ss.length * 2 + ss.length * c.szStr
    let memorySlack := 3 * c.stepCE3
    if memory ≠ 0 ∧ memory < memoryUse + memorySlack + 1 then
      radixsortCE2 str c withLcp depth ss l memory
    else ce3Loop str c withLcp (radixFuel str ss) ss l depth 1 (wsub memory memoryUse)

/-- `tlx::sort_strings` / `tlx::sort_strings_lcp` (strings.hpp): every overload is
`radixsort_CE3(StringPtr / StringLcpPtr, depth 0, memory)` -/
def sortStrings (c : Consts) (withLcp : Bool) (ss : List α) (l : List Nat) (memory : Nat) :
    List α × List Nat :=
  radixsortCE3 str c withLcp 0 ss l memory

end TlxVerif.C03
