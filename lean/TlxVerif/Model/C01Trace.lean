/-
C01/C02 — branch trace of the erase case analysis, computed by the model.

`eraseDescendT` is `eraseDescend` (Model/C01Erase.lean) returning, besides the result, which branch of
`erase_one_descend` / `erase_iter_descend` every frame of the descent took: the row of the underflow
case table (`decideRow`, tied to `decideFix` by `decideFix_eq_row`), the `btree_update_lastkey` /
`btree_fixmerge` handling, the root cases, the search loop of `erase_iter_descend`.  The results are the
model's (`eraseDescendT_fst`), the labels are computed from the same helper functions.
Used by the drivers in `trace` mode (`drv_c01 trace`): checks/c01.py plans its deep-tree cases with it and
reports the branch coverage of every run in the evidence.

Labels (prefix `k.` = erase_one_descend, `i.` = erase_iter_descend; `L` leaf frame, `I1` inner frame of
level 1, `I2` inner frame of level ≥ 2):
  `<f>.row<r>`        the underflow case taken, r ∈ 1a 1b 2a 2b 3a 3b 4a 4b 5a 5b in the order of the C++
                      if/else chain (a = first alternative of the inner `if`, b = its `else`);
                      `+lk`: `myres` already carries `btree_update_lastkey` when the merge/shift result is or-ed in
  `<f>.nofix`         no underflow;  `L.root.emptied` / `I*.root.collapse`: the root cases
  `<f>.lastkey.set`   the changed last key is written into the parent's separator; `.fwd`: forwarded upwards
  `I*.fixmerge.cur|next`  which of the two merged children is the empty one; `I1.fixmerge.lvl1`
  `I*.exec.<leaves|inner>.<mergeL|mergeR|shiftL|shiftR>`  the function executed for the child's request
  `I*.scan.advance`   the search loop of erase_iter_descend went on to a further child
-/
import TlxVerif.Model.C01Step
namespace TlxVerif.C01

variable {K V : Type}

/-- rows of the underflow case table; `r4x` = the C++ reads `slotuse` through a null sibling -/
inductive Row where
  | r1a | r1b | r2a | r2b | r3a | r3b | r4a | r4b | r4x | r5a | r5b
  deriving DecidableEq, Repr

def Row.name : Row → String
  | .r1a => "1a" | .r1b => "1b" | .r2a => "2a" | .r2b => "2b" | .r3a => "3a" | .r3b => "3b"
  | .r4a => "4a" | .r4b => "4b" | .r4x => "4x" | .r5a => "5a" | .r5b => "5b"

/-- what the row does -/
def Row.fix : Row → Option Fix
  | .r1a => some .mergeL | .r1b => some .mergeR
  | .r2a => some .shiftL | .r2b => some .mergeL
  | .r3a => some .shiftR | .r3b => some .mergeR
  | .r4a => some .shiftL | .r4b => some .shiftR | .r4x => none
  | .r5a => some .shiftR | .r5b => some .shiftL

/-- the if/else chain of the underflow handling, returning the row instead of its action -/
def decideRow (minUse : Nat) (leftUse rightUse : Option Nat) (lp rp par : Option Nat) : Row :=
  let few (u : Nat) : Bool := u ≤ minUse
  let lNullOrFew := match leftUse with | none => true | some u => few u
  let rNullOrFew := match rightUse with | none => true | some u => few u
  let lFew := match leftUse with | none => false | some u => few u
  let rFew := match rightUse with | none => false | some u => few u
  let lRich := match leftUse with | none => false | some u => !few u
  let rRich := match rightUse with | none => false | some u => !few u
  if lNullOrFew && rNullOrFew then
    (if lp = par then .r1a else .r1b)
  else if lFew && rRich then
    (if rp = par then .r2a else .r2b)
  else if lRich && rFew then
    (if lp = par then .r3a else .r3b)
  else if lp = rp then
    match leftUse, rightUse with
    | some l, some r => (if l ≤ r then .r4a else .r4b)
    | _, _ => .r4x
  else
    (if lp = par then .r5a else .r5b)

/-- the row reported by the trace is the row whose action the model executes -/
theorem decideFix_eq_row (minUse : Nat) (leftUse rightUse : Option Nat) (lp rp par : Option Nat) :
    decideFix minUse leftUse rightUse lp rp par = (decideRow minUse leftUse rightUse lp rp par).fix := by
  cases leftUse <;> cases rightUse <;> simp only [decideFix, decideRow] <;> (repeat' split) <;>
    first | rfl | (simp_all)

def Fix.name : Fix → String
  | .none => "none" | .mergeL => "mergeL" | .mergeR => "mergeR" | .shiftL => "shiftL" | .shiftR => "shiftR"

/-- labels of a leaf frame (`eraseInLeaf`) -/
def leafTrace (p : Params K) (es : List (K × V)) (slot : Nat) (ctx : Ctx K V) : List String :=
  let es' := es.eraseIdx slot
  let erasedLast := slot == es'.length
  let lastK := es'.getLast?.map Prod.fst
  let isRoot := ctx.par.isNone
  let lk := if erasedLast then [if ctx.sepAbove then "L.lastkey.set" else "L.lastkey.fwd"] else []
  let pending := erasedLast && !ctx.sepAbove && lastK.isSome
  let under := es'.length < p.leafMin && !(isRoot && es'.length ≥ 1)
  lk ++
    (if under then
      if ctx.left.isNone && ctx.right.isNone then ["L.root.emptied"]
      else ["L.row" ++
              (decideRow p.leafMin (ctx.left.map BNode.slotuse) (ctx.right.map BNode.slotuse) ctx.lp ctx.rp ctx.par).name ++
              (if pending then "+lk" else "")]
    else ["L.nofix"])

/-- labels of an inner frame after the recursive call on child `slot` returned `r` (`afterChild`) -/
def innerTrace (p : Params K) (l : Nat) (keys : List K) (kids : List (BNode K V)) (ctx : Ctx K V) (slot : Nat)
    (r : EraseOut K V) : List String :=
  let f := if l = 1 then "I1" else "I2"
  let kids1 := kids.set slot r.node
  let keys1 := setSepKey keys slot r.setSep
  match applyFix r.fix keys1 kids1 slot with
  | none => [f ++ ".ub"]
  | some fx =>
    let what := if r.node.isLeaf then "leaves" else "inner"
    let exec := if r.fix = .none then [] else [f ++ ".exec." ++ what ++ "." ++ r.fix.name]
    let sll := if r.fix = .shiftL && r.node.isLeaf then
        [f ++ (if fx.lastUp.isSome then ".exec.shiftleftleaf.fwd" else ".exec.shiftleftleaf.set")] else []
    let lk := fx.lastUp.or r.lastUp
    let lkl := if lk.isSome then [f ++ (if ctx.sepAbove then ".lastkey.set" else ".lastkey.fwd")] else []
    let pending := lk.isSome && !ctx.sepAbove
    match fixMerge l fx slot with
    | none => [f ++ ".ub"]
    | some (keys3, _, _, _) =>
      let fm := if fx.fixmerge then
          [match fx.kids[slot]? with
            | some c => f ++ (if c.slotuse ≠ 0 then ".fixmerge.next" else ".fixmerge.cur")
            | none => f ++ ".ub"] ++ (if l = 1 then [f ++ ".fixmerge.lvl1"] else [])
        else []
      let isRoot := ctx.par.isNone
      let under := keys3.length < p.innerMin && !(isRoot && keys3.length ≥ 1)
      let uf := if under then
          if ctx.left.isNone && ctx.right.isNone then [f ++ ".root.collapse"]
          else [f ++ ".row" ++
                  (decideRow p.innerMin (ctx.left.map BNode.slotuse) (ctx.right.map BNode.slotuse) ctx.lp ctx.rp ctx.par).name ++
                  (if pending then "+lk" else "")]
        else [f ++ ".nofix"]
      exec ++ sll ++ lkl ++ fm ++ uf

def visitChildT (rec : BNode K V → Ctx K V → Option (Option (EraseOut K V × List String))) (h : Nat) (keys : List K)
    (kids : List (BNode K V)) (ctx : Ctx K V) (slot : Nat) : Option (Option (EraseOut K V × List String)) :=
  match kids[slot]?, childCtx h keys kids ctx slot with
  | some child, some cctx => rec child cctx
  | _, _ => none

/-- `eraseDescend` with the labels of every frame, innermost first -/
def eraseDescendT (p : Params K) (tg : Target K) :
    Nat → BNode K V → Ctx K V → Option (Option (EraseOut K V × List String))
  | _, .leaf es, ctx =>
    match tg with
    | .key k =>
      let slot := findLower p (keysOf es) k
      match es[slot]? with
      | none => some none
      | some e =>
        if !p.eqv k e.1 then some none
        else (eraseInLeaf p es slot ctx).map fun o => some (o, leafTrace p es slot ctx)
    | .iter li slot _ =>
      if ctx.off ≠ li then some none
      else if slot ≥ es.length then some none
      else (eraseInLeaf p es slot ctx).map fun o => some (o, leafTrace p es slot ctx)
  | 0, .inner .., _ => none
  | h + 1, .inner l keys kids, ctx =>
    let slot0 := findLower p keys tg.tkey
    match scanLoop (visitChildT (eraseDescendT p tg h) h keys kids ctx) (scanStop p tg keys)
        (scanTries tg keys.length slot0) slot0 with
    | none => none
    | some none => some none
    | some (some (slot, rt)) =>
      (afterChild p l keys kids ctx slot rt.1).map fun o =>
        some (o, rt.2 ++ (if slot > slot0 then [(if l = 1 then "I1" else "I2") ++ ".scan.advance"] else []) ++
                  innerTrace p l keys kids ctx slot rt.1)

theorem scanLoop_map {α β : Type} (f : α → β) (visit : Nat → Option (Option α)) (stop : Nat → Bool) :
    ∀ (n slot : Nat),
      scanLoop (fun s => (visit s).map (Option.map f)) stop n slot =
        (scanLoop visit stop n slot).map (Option.map fun sa => (sa.1, f sa.2)) := by
  intro n
  induction n with
  | zero => intro slot; rfl
  | succ n ih =>
    intro slot
    simp only [scanLoop]
    cases hv : visit slot with
    | none => rfl
    | some o =>
      cases o with
      | some a => rfl
      | none =>
        simp only [Option.map_some, Option.map_none]
        split
        · rfl
        · exact ih (slot + 1)

theorem eraseDescendT_leaf (p : Params K) (tg : Target K) (h : Nat) (es : List (K × V)) (ctx : Ctx K V) :
    (eraseDescendT p tg h (.leaf es) ctx).map (Option.map Prod.fst) = eraseDescend p tg h (.leaf es) ctx := by
  cases tg with
  | key k =>
    cases h <;>
    · simp only [eraseDescendT, eraseDescend]
      cases es[findLower p (keysOf es) k]? with
      | none => rfl
      | some e =>
        simp only
        by_cases he : (!p.eqv k e.1) = true
        · simp only [he, if_true]; rfl
        · simp only [he]
          cases eraseInLeaf p es (findLower p (keysOf es) k) ctx <;> rfl
  | iter li slot k =>
    cases h <;>
    · simp only [eraseDescendT, eraseDescend]
      by_cases h1 : ctx.off ≠ li
      · rw [if_pos h1, if_pos h1]; rfl
      · rw [if_neg h1, if_neg h1]
        by_cases h2 : slot ≥ es.length
        · rw [if_pos h2, if_pos h2]; rfl
        · rw [if_neg h2, if_neg h2]
          cases eraseInLeaf p es slot ctx <;> rfl

/-- **the traced descent computes the model's result** -/
theorem eraseDescendT_fst (p : Params K) (tg : Target K) :
    ∀ (h : Nat) (n : BNode K V) (ctx : Ctx K V),
      (eraseDescendT p tg h n ctx).map (Option.map Prod.fst) = eraseDescend p tg h n ctx := by
  intro h
  induction h with
  | zero =>
    intro n ctx
    cases n with
    | inner l ks kids => rfl
    | leaf es => exact eraseDescendT_leaf p tg 0 es ctx
  | succ h ih =>
    intro n ctx
    cases n with
    | leaf es => exact eraseDescendT_leaf p tg (h + 1) es ctx
    | inner l keys kids =>
      unfold eraseDescendT eraseDescend
      simp only
      have hvis : (visitChild (eraseDescend p tg h) h keys kids ctx) =
          fun s => (visitChildT (eraseDescendT p tg h) h keys kids ctx s).map (Option.map Prod.fst) := by
        funext s
        unfold visitChild visitChildT
        cases h1 : kids[s]? with
        | none => rfl
        | some child =>
          cases h2 : childCtx h keys kids ctx s with
          | none => rfl
          | some cctx => simp only; exact (ih child cctx).symm
      rw [hvis, scanLoop_map]
      cases scanLoop (visitChildT (eraseDescendT p tg h) h keys kids ctx) (scanStop p tg keys)
          (scanTries tg keys.length (findLower p keys tg.tkey)) (findLower p keys tg.tkey) with
      | none => rfl
      | some o =>
        cases o with
        | none => rfl
        | some srt =>
          obtain ⟨slot, r, tr⟩ := srt
          simp only [Option.map_some]
          cases afterChild p l keys kids ctx slot r <;> rfl

/-! ### the trace of one protocol operation -/

def eraseTrace (p : Params Nat) (t : T) (tg : Target Nat) (pre : String) : List String :=
  match t.root with
  | none => [pre ++ "empty"]
  | some r =>
    match eraseDescendT p tg r.level r {} with
    | none => [pre ++ "ub"]
    | some none => [pre ++ "notfound"]
    | some (some (_, tr)) => tr.map (pre ++ ·)

/-- `erase(key)`: the trace of every `erase_one` of the loop -/
def eraTrace (p : Params Nat) (k : Nat) : Nat → T → List String
  | 0, _ => []
  | fuel + 1, t =>
    eraseTrace p t (.key k) "k." ++
      match eraseOne p t k with
      | some r => if r.erased && p.dup then eraTrace p k fuel r.tree else []
      | none => []

def opTrace (c : Cfg) (s : MSt) : Op → List String
  | .er1 r k => eraseTrace (c.params (s.mode r)) (s.get r) (.key k) "k."
  | .era r k => eraTrace (c.params (s.mode r)) k ((s.get r).stats.size + 2) (s.get r)
  | .eri r k =>
    let t := s.get r
    if k ≥ t.stats.size then [] else
    match beginPos t.leafChain with
    | none => []
    | some b =>
      let it := iterN (itInc t.leafChain) k b
      match deref t.leafChain it with
      | none => []
      | some e => eraseTrace (c.params (s.mode r)) t (.iter it.1 it.2 e.1) "i."
  | _ => []

/-- `step` of the driver in `trace` mode: the normal answer, ` ;; `, the labels of the operation -/
def stepTrace (s : St) (ts : List String) : St × String :=
  let tr : List String :=
    match s.cfg with
    | none => []
    | some c =>
      match (resolveRef c.isMap s.m ts).bind (parseOp c.isMap) with
      | none => []
      | some op => if op.wf then opTrace c s.m op else []
  let (s', out) := step s ts
  (s', out ++ " ;; " ++ " ".intercalate tr)

/-- `step` of the driver in `labels` mode (planning aid of checks/c01_deep.py: no answers are printed):
the labels of the operation; for `size r` the structure dump of register `r` -/
def stepLabels (s : St) (ts : List String) : St × String :=
  match ts with
  | "cfg" :: _ => ((step s ts).1, "")
  | _ =>
    match s.cfg with
    | none => (s, "")
    | some c =>
      match (resolveRef c.isMap s.m ts).bind (parseOp c.isMap) with
      | none => (s, "")
      | some op =>
        match op with
        | .size r => (s, showTree c.isMap (s.m.get r))
        | _ =>
          let tr := if op.wf then opTrace c s.m op else []
          match stepOp c s.m op with
          | .ok (m', _, _) => ({ s with m := m' }, " ".intercalate tr)
          | _ => (s, " ".intercalate tr)

end TlxVerif.C01
