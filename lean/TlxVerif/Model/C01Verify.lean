/-
C02 — transliteration of the public self-check `BTree::verify()` / `verify_node()` over the model.
`verify_leaflinks()` and the leaf-link comparisons inside `verify_node` concern pointer linkage, which the
model represents by the left-to-right order of leaves (trusted base); they are vacuous here.
A failing `tlx_die_unless` is `none`.
-/
import TlxVerif.Model.C01Tree
namespace TlxVerif.C01

variable {K V : Type}

/-- `for (slot = 0; slot < slotuse - 1; ++slot) tlx_die_unless(key_lessequal(key(slot), key(slot + 1)))` -/
def adjacentLe (p : Params K) : List K → Bool
  | a :: b :: rest => p.le a b && adjacentLe p (b :: rest)
  | _ => true

/-- `if (slot == 0) *minkey = subminkey; else tlx_die_unless(key_greaterequal(subminkey, inner->key(slot - 1)))` -/
def lowOk (p : Params K) (keys : List K) (smin : K) : Nat → Bool
  | 0 => true
  | s + 1 => match keys[s]? with
    | some k => !p.lt smin k
    | none => false

/-- the loop `for (slot = 0; slot <= inner->slotuse; ++slot)` of `verify_node` over the remaining children;
`mn` is `*minkey` once slot 0 has been visited -/
def verifyKids (p : Params K) (rec : BNode K V → Option (K × K)) (l : Nat) (keys : List K) :
    List (BNode K V) → Nat → Option K → Option (K × K)
  | [], _, _ => none                                   -- childid[slot] beyond the children that exist
  | c :: cs, slot, mn =>
    if c.level + 1 ≠ l then none else                  -- tlx_die_unless(subnode->level + 1 == inner->level)
    match rec c with
    | none => none
    | some (smin, smax) =>
      if !lowOk p keys smin slot then none else
      let mn' := if slot = 0 then some smin else mn
      if slot = keys.length then
        mn'.map (fun m => (m, smax))                   -- *maxkey = submaxkey; the loop ends
      else
        match keys[slot]? with
        | some k => if p.eqv k smax then verifyKids p rec l keys cs (slot + 1) mn' else none
        | none => none

/-- `verify_node(n, &minkey, &maxkey, vstats)`: `some (minkey, maxkey)` when every check passes
(`vstats` is recomputed by `leafCount` / `innerCount` / `flatten` in `verifyB`) -/
def verifyNode (p : Params K) (isRoot : Bool) : Nat → BNode K V → Option (K × K)
  | _, .leaf es =>
    if !(isRoot || !(es.length < p.leafMin)) then none            -- leaf == root_ || !leaf->is_underflow()
    else if !(es.length > 0) then none
    else if !adjacentLe p (keysOf es) then none
    else match es.head?, es.getLast? with
      | some a, some b => some (a.1, b.1)
      | _, _ => none
  | 0, .inner .. => none
  | h + 1, .inner l keys kids =>
    if !(isRoot || !(keys.length < p.innerMin)) then none
    else if !(keys.length > 0) then none
    else if !adjacentLe p keys then none
    else verifyKids p (verifyNode p false h) l keys kids 0 none

/-- `verify()`: `verify_node(root_)` and the comparison of the recount with `stats_` -/
def verifyB (p : Params K) (t : Tree K V) : Bool :=
  match t.root with
  | none => true
  | some r =>
    (verifyNode p true r.level r).isSome &&
      (t.toList.length == t.stats.size) && (t.nLeaves == t.stats.leaves) && (t.nInner == t.stats.inner)

end TlxVerif.C01
