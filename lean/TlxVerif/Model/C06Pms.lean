/-
C06 — executable model of tlx::parallel_mergesort_base (tlx/sort/parallel_mergesort.hpp).

Transliteration of the code as it exists: slice bounds `starts`, per-thread local sort into a
temporary, exact splitting (multisequence_partition at rank `starts[iam+1]`, the transliterated
C08 model) or sampling splitting (samples taken from the *unsorted* source, `lower_bound` in the
sorted temporaries), `pieces`, per-thread offset/length, merge back into the caller's range.
`std::sort`/`std::stable_sort` and the sequential `multiway_merge_base` are represented by their
specifications (stable sort / first `len` elements of the stable merge; C05).  The lifetime ledger
counts the element objects the sort itself constructs in raw storage and destroys.
Elements are `C07.Elem` with
`pos` = index in the caller's range before the sort (the `seq` field is not used).
-/
import TlxVerif.Model.C07Pmm
namespace TlxVerif.C06
open TlxVerif.C07 (Elem kMerge kMergeTake equallySplit sortKeys assemble)

structure Params where
  lt : Int → Int → Bool
  stable : Bool
  exact : Bool
  threads : Nat
  osf : Nat

structure Result where
  out : List Elem
  copyWindows : List (Nat × Nat)     -- per thread: slice [starts[t], starts[t+1]) copied into its temporary
  mergeWindows : List (Int × Int)    -- per thread: (offset, length_am)
  constructed : Nat                  -- element objects placed into raw storage by the sort
  destroyed : Nat                    -- … and destroyed by it
  deriving Repr

abbrev R := Except String

/-- `starts[0..p]`: `chunk_length = n / p`, the first `n % p` slices one longer -/
def startsOf (n p : Nat) : List Nat :=
  let chunk := n / p
  let split := n % p
  let rec go (fuel i start : Nat) (acc : List Nat) : List Nat :=
    match fuel with
    | 0 => acc ++ [start]
    | fuel + 1 => go fuel (i + 1) (start + (if i < split then chunk + 1 else chunk)) (acc ++ [start])
  go p 0 0 []

/-- the slices `[b_t, b_{t+1})` of the caller's range for consecutive boundaries -/
def slicesBy (input : List Elem) : List Nat → List (List Elem)
  | a :: b :: rest => (input.drop a).take (b - a) :: slicesBy input (b :: rest)
  | _ => []

/-- (start, length) of the slices -/
def windowsBy : List Nat → List (Nat × Nat)
  | a :: b :: rest => (a, b - a) :: windowsBy (b :: rest)
  | _ => []

/-- lifetime ledger of the temporaries: every thread constructs `length_local` element objects in raw
storage (`std::uninitialized_copy`) and — after `fix: parallel_mergesort never destroyed …` — destroys
`length_local` objects before releasing the storage.  Returns (constructed, destroyed). -/
def ledger (starts : List Nat) : Nat × Nat :=
  (((windowsBy starts).map (·.2)).foldl (· + ·) 0, ((windowsBy starts).map (·.2)).foldl (· + ·) 0)

/-- `std::lower_bound(first, last, v, comp) - first` on a sorted run -/
def lowerBound (lt : Int → Int → Bool) (run : List Elem) (v : Int) : Nat :=
  (run.takeWhile (fun x => lt x.key v)).length

structure Piece where
  b : Int
  e : Int
  deriving Repr, Inhabited

/-- exact splitting: pieces[iam][seq] -/
def exactPieces (P : Params) (temps : List (List Elem)) (starts : List Nat) (p : Nat) : R (List (List Piece)) := do
  let c8 : C08.Ctx := { lt := P.lt, runs := (temps.map fun r => (r.map (·.key)).toArray).toArray }
  -- ends
  let mut ends : List (List Int) := []
  for iam in List.range p do
    if iam < p - 1 then
      match C08.runM (C08.partitionM c8 (starts.getD (iam + 1) 0)) with
      | .ok (o, _) => ends := ends ++ [o.toList]
      | .error e => throw s!"multisequence_partition: {e}"
    else
      ends := ends ++ [temps.map fun r => (r.length : Int)]
  -- begins = ends of the previous thread
  let mut pieces : List (List Piece) := []
  for iam in List.range p do
    let en := ends.getD iam []
    let bg : List Int := if iam > 0 then ends.getD (iam - 1) [] else temps.map fun _ => 0
    pieces := pieces ++ [(List.range p).map fun s => ⟨bg.getD s 0, en.getD s 0⟩]
  return pieces

/-- sampling splitting: `determine_samples` of every thread (reads the caller's unsorted range),
sorted by the barrier's completion step, then `lower_bound`s -/
def samplingPieces (P : Params) (source : List Elem) (temps : List (List Elem)) (starts : List Nat) (p : Nat) :
    R (List (List Piece)) := do
  let ns : Nat := P.osf * p - 1
  let mut samples : List Int := []
  for iam in List.range p do
    let st := starts.getD iam 0
    let len := starts.getD (iam + 1) 0 - st
    let es := equallySplit len (ns + 1)
    for i in List.range ns do
      let idx : Int := (st : Int) + es.getD (i + 1) 0
      if idx < 0 then throw "sample read out of bounds"
      match source[idx.toNat]? with
      | some e => samples := samples ++ [e.key]
      | none => throw "sample read out of bounds"
  let sorted := (sortKeys P.lt samples).toArray
  let mut pieces : List (List Piece) := []
  for iam in List.range p do
    let mut row : List Piece := []
    for s in List.range p do
      let run := temps.getD s []
      let b ← if ns * iam > 0 then
          match sorted[ns * iam]? with
          | some v => pure (lowerBound P.lt run v : Int)
          | none => throw "sample read out of bounds"
        else pure (0 : Int)
      let e ← if ns * (iam + 1) < ns * p then
          match sorted[ns * (iam + 1)]? with
          | some v => pure (lowerBound P.lt run v : Int)
          | none => throw "sample read out of bounds"
        else pure (run.length : Int)
      row := row ++ [⟨b, e⟩]
    pieces := pieces ++ [row]
  return pieces

def slicePiece (run : List Elem) (c : Piece) : R (List Elem) :=
  if c.b < 0 || c.e < c.b || c.e > run.length then throw "piece is not a sub-range of its sequence"
  else pure ((run.drop c.b.toNat).take (c.e - c.b).toNat)

/-- `parallel_mergesort_base<Stable>`; `input` carries `pos` = index -/
def pmsort (P : Params) (input : List Elem) : R Result := do
  let n := input.length
  if n ≤ 1 then
    return { out := input, copyWindows := [], mergeWindows := [], constructed := 0, destroyed := 0 }
  if P.threads == 0 then throw "zero threads"
  let p := if P.threads > n then n else P.threads
  let starts := startsOf n p
  -- local sort of every slice in its temporary (uninitialized_copy, then std::(stable_)sort = stable sort
  -- up to the order of equivalent keys)
  let temps : List (List Elem) := (slicesBy input starts).map fun slice => kMerge P.lt [slice]
  let cw := windowsBy starts
  let pieces ← if P.exact then exactPieces P temps starts p else samplingPieces P input temps starts p
  -- merge directly to target
  let mut wins : List (Int × List Elem) := []
  let mut mw : List (Int × Int) := []
  for iam in List.range p do
    let row := pieces.getD iam []
    let mut offset : Int := 0
    let mut lengthAm : Int := 0
    let mut parts : List (List Elem) := []
    for s in List.range p do
      let c := row.getD s default
      lengthAm := lengthAm + (c.e - c.b)
      offset := offset + c.b
      parts := parts ++ [← slicePiece (temps.getD s []) c]
    if lengthAm < 0 then throw "negative merge length"
    mw := mw ++ [(offset, lengthAm)]
    wins := wins ++ [(offset, kMergeTake P.lt parts lengthAm.toNat)]
  let out ← assemble n wins
  let (constructed, destroyed) := ledger starts
  return { out := out, copyWindows := cw, mergeWindows := mw, constructed := constructed, destroyed := destroyed }

end TlxVerif.C06
