/-
C06 — executable model of tlx::parallel_mergesort_base (tlx/sort/parallel_mergesort.hpp).

Transliteration of the code as it exists: slice bounds `starts`, per-thread local sort into a
temporary, exact splitting (multisequence_partition at rank `starts[iam+1]`, the transliterated
C08 model) or sampling splitting (samples taken from the *unsorted* source, `lower_bound` in the
sorted temporaries), `pieces`, per-thread offset/length, merge back into the caller's range.
`std::sort`/`std::stable_sort` and the sequential `multiway_merge_base` are represented by their
specifications (stable sort / first `len` elements of the stable merge; C05).  The lifetime ledger
counts the element objects the sort itself constructs in raw storage and destroys.
Elements are `C07.Elem` with
`pos` = index in the caller's range before the sort (the `seq` field is not used).
-/
import TlxVerif.Model.C07Pmm
namespace TlxVerif.C06
open TlxVerif.C07 (Elem kMerge kMergeTake equallySplit sortKeys assemble)

structure Params where
  lt : Int → Int → Bool
  stable : Bool
  exact : Bool
  threads : Nat
  osf : Nat

structure Result where
  out : List Elem
  copyWindows : List (Nat × Nat)     -- per thread: slice [starts[t], starts[t+1]) copied into its temporary
  mergeWindows : List (Nat × Nat)    -- per thread: (offset, length_am)
  constructed : Nat                  -- element objects placed into raw storage by the sort
  destroyed : Nat                    -- … and destroyed by it
  deriving Repr

abbrev R := Except String

/-- `starts[0..p]`: `chunk_length = n / p`, the first `n % p` slices one longer -/
def startsOf (n p : Nat) : List Nat :=
  let chunk := n / p
  let split := n % p
  let rec go (fuel i start : Nat) (acc : List Nat) : List Nat :=
    match fuel with
    | 0 => acc ++ [start]
    | fuel + 1 => go fuel (i + 1) (start + (if i < split then chunk + 1 else chunk)) (acc ++ [start])
  go p 0 0 []

/-- the slices `[b_t, b_{t+1})` of the caller's range for consecutive boundaries -/
def slicesBy (input : List Elem) : List Nat → List (List Elem)
  | a :: b :: rest => (input.drop a).take (b - a) :: slicesBy input (b :: rest)
  | _ => []

/-- (start, length) of the slices -/
def windowsBy : List Nat → List (Nat × Nat)
  | a :: b :: rest => (a, b - a) :: windowsBy (b :: rest)
  | _ => []

/-- lifetime ledger of the temporaries: every thread constructs `length_local` element objects in raw
storage (`std::uninitialized_copy`) and — after `fix: parallel_mergesort never destroyed …` — destroys
`length_local` objects before releasing the storage.  Returns (constructed, destroyed). -/
def ledger (starts : List Nat) : Nat × Nat :=
  (((windowsBy starts).map (·.2)).foldl (· + ·) 0, ((windowsBy starts).map (·.2)).foldl (· + ·) 0)

/-- `std::lower_bound(first, last, v, comp) - first` on a sorted run -/
def lowerBound (lt : Int → Int → Bool) (run : List Elem) (v : Int) : Nat :=
  (run.takeWhile (fun x => lt x.key v)).length

/-- exact splitting: the end offsets `pieces[iam][·].end` of every thread
(`multisequence_partition` at rank `starts[iam+1]`; the last thread ends at the ends of the temporaries) -/
def exactPieceEnds (part : Int → R (List Nat)) (temps : List (List Elem)) (starts : List Nat) (p : Nat) :
    R (List (List Nat)) := do
  let inner ← (List.range (p - 1)).mapM (fun iam => part (starts.getD (iam + 1) 0))
  pure (inner ++ [temps.map List.length])

/-- `sd->source[idx]` -/
def sourceKey (source : List Elem) (idx : Int) : R Int :=
  if idx < 0 then throw "sample read out of bounds"
  else match source[idx.toNat]? with
    | some e => pure e.key
    | none => throw "sample read out of bounds"

/-- `determine_samples` of every thread (reads the caller's *unsorted* range at
`starts[iam] + equally_split(length_local, num_samples+1)[i+1]`), then the barrier's `std::sort` -/
def sortedSamples (lt : Int → Int → Bool) (source : List Elem) (starts : List Nat) (p ns : Nat) : R (List Int) := do
  let rows ← (List.range p).mapM (fun iam =>
    let es := equallySplit ((starts.getD (iam + 1) 0 - starts.getD iam 0 : Nat) : Int) (ns + 1)
    (List.range ns).mapM (fun i => sourceKey source ((starts.getD iam 0 : Nat) + es.getD (i + 1) 0)))
  pure (sortKeys lt rows.flatten)

/-- sampling splitting: the end offsets of every thread's pieces (`lower_bound` of
`samples[num_samples * (iam+1)]` in every sorted temporary; the last thread ends at the ends) -/
def samplingPieceEnds (P : Params) (source : List Elem) (temps : List (List Elem)) (starts : List Nat) (p : Nat) :
    R (List (List Nat)) := do
  let ns : Nat := P.osf * p - 1
  let sorted ← sortedSamples P.lt source starts p ns
  let inner ← (List.range (p - 1)).mapM (fun iam => do
    let v ← C07.splitterAt sorted (ns * (iam + 1))
    pure (temps.map fun run => lowerBound P.lt run v))
  pure (inner ++ [temps.map List.length])

/-- one thread of the merge-back: offset, and the merge of all `length_am` elements of its pieces -/
def mergePart (lt : Int → Int → Bool) (temps : List (List Elem)) (row : List C07.Chunk) : R (Nat × List Elem) := do
  let parts ← (List.zip temps row).mapM (fun rc => C07.sliceChunk rc.1 rc.2)
  let offset := (row.map (·.first)).sum
  let lengthAm := (row.map (fun c => c.second - c.first)).sum
  pure (offset, kMergeTake lt parts lengthAm)

/-- the merge-back of all threads into the caller's range, and the ledger of the temporaries -/
def msRun (lt : Int → Int → Bool) (temps : List (List Elem)) (n : Nat) (starts : List Nat) (ends : List (List Nat)) :
    R Result := do
  -- pieces[iam][s] = [end of thread iam-1, end of thread iam)
  let rows := C07.chunkTable (List.replicate temps.length 0) ends
  -- merge directly to target
  let wins ← rows.mapM (mergePart lt temps)
  let out ← assemble n wins
  pure { out := out, copyWindows := windowsBy starts, mergeWindows := wins.map (fun w => (w.1, w.2.length)),
         constructed := (ledger starts).1, destroyed := (ledger starts).2 }

/-- the temporaries: local sort of every slice (uninitialized_copy, then std::(stable_)sort = stable sort
up to the order of equivalent keys) -/
def tempsOf (lt : Int → Int → Bool) (input : List Elem) (starts : List Nat) : List (List Elem) :=
  (slicesBy input starts).map fun slice => kMerge lt [slice]

/-- `parallel_mergesort_base<Stable>`; `input` carries `pos` = index -/
def pmsort (P : Params) (input : List Elem) : R Result :=
  if input.length ≤ 1 then
    pure { out := input, copyWindows := [], mergeWindows := [], constructed := 0, destroyed := 0 }
  else if P.threads == 0 then throw "zero threads"
  else
    let p := if P.threads > input.length then input.length else P.threads
    let starts := startsOf input.length p
    let temps := tempsOf P.lt input starts
    if P.exact then
      exactPieceEnds (C07.partOffsets P.lt temps) temps starts p >>= msRun P.lt temps input.length starts
    else
      samplingPieceEnds P input temps starts p >>= msRun P.lt temps input.length starts

end TlxVerif.C06
