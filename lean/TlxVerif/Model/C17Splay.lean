/-
Model of the splay tree of tlx/container/splay_tree.hpp: the free functions `splay`,
`splay_insert`, `splay_erase`, `splay_check`, and the members of `SplayTree`.

A tree is an inductive value (`nil` = `nullptr`); node identity and pointer linkage are not
modelled, allocation is a ledger of counts.  The top-down `splay` loop keeps, exactly like the
C++ code, the current node `t` and the two trees under construction: the "left tree" whose
pending hole is the `right` pointer of its last node `l` (frames `(left subtree, key)`, innermost
first) and the "right tree" whose hole is the `left` pointer of `r` (frames `(key, right subtree)`).
-/
namespace TlxVerif.C17

inductive Tree where
  | nil
  | node (l : Tree) (k : Int) (r : Tree)
  deriving Repr, DecidableEq, Inhabited

namespace Tree

def inorder : Tree → List Int
  | nil => []
  | node l k r => inorder l ++ k :: inorder r

def size : Tree → Nat
  | nil => 0
  | node l _ r => size l + 1 + size r

end Tree

abbrev LFrame := Tree × Int      -- node with this left subtree and key; its right pointer is the hole
abbrev RFrame := Int × Tree      -- node with this key and right subtree; its left pointer is the hole

/-- fill the hole of the left tree (frames innermost first) -/
def assembleL (hole : Tree) (fs : List LFrame) : Tree :=
  fs.foldl (fun acc f => Tree.node f.1 f.2 acc) hole

def assembleR (hole : Tree) (fs : List RFrame) : Tree :=
  fs.foldl (fun acc f => Tree.node acc f.1 f.2) hole

/-- the `for (;;)` loop of `splay(k, t, cmp)`; returns the node the loop stops at and both trees -/
def splayLoop (lt : Int → Int → Bool) (k : Int) : Tree → List LFrame → List RFrame →
    Tree × List LFrame × List RFrame
  | .nil, L, R => (.nil, L, R)
  | .node l x r, L, R =>
    if lt k x then
      match l with
      | .nil => (.node .nil x r, L, R)                       -- t->left == nullptr: break
      | .node a y b =>
        if lt k y then
          -- rotate right: t = y with right child (b x r)
          match a with
          | .nil => (.node .nil y (.node b x r), L, R)        -- break after the rotation
          | .node a1 z a2 => splayLoop lt k (.node a1 z a2) L ((y, .node b x r) :: R)   -- link right
        else
          splayLoop lt k (.node a y b) L ((x, r) :: R)         -- link right
    else if lt x k then
      match r with
      | .nil => (.node l x .nil, L, R)
      | .node a y b =>
        if lt y k then
          -- rotate left: t = y with left child (l x a)
          match b with
          | .nil => (.node (.node l x a) y .nil, L, R)
          | .node b1 z b2 => splayLoop lt k (.node b1 z b2) ((.node l x a, y) :: L) R   -- link left
        else
          splayLoop lt k (.node a y b) ((l, x) :: L) R         -- link left
    else (.node l x r, L, R)

/-- `splay(k, t, cmp)` -/
def splay (lt : Int → Int → Bool) (k : Int) (t : Tree) : Tree :=
  match t with
  | .nil => .nil
  | t =>
    match splayLoop lt k t [] [] with
    | (.nil, _, _) => .nil      -- unreachable: the loop never ends on a null node
    | (.node l x r, L, R) => .node (assembleL l L) x (assembleR r R)

/-- `splay_insert(nn, t, cmp)` with `nn->key = k`; `t` has been splayed for `k` -/
def splayInsert (lt : Int → Int → Bool) (k : Int) (t : Tree) : Tree :=
  match t with
  | .nil => .node .nil k .nil
  | .node l x r =>
    if lt k x then .node l k (.node .nil x r)
    else .node (.node l x .nil) k r

/-- `m = x; while (m->right) m = m->right; m->right = r` -/
def attachRightmost (x : Tree) (r : Tree) : Tree :=
  match x with
  | .nil => r
  | .node a y b => .node a y (attachRightmost b r)

/-- `splay_erase(k, t, cmp)`: new tree and whether a node was unlinked -/
def splayErase (lt : Int → Int → Bool) (k : Int) (t : Tree) : Tree × Bool :=
  match splay lt k t with
  | .nil => (.nil, false)
  | .node l x r =>
    if !lt k x && !lt x k then
      match l with
      | .nil => (r, true)
      | l => (attachRightmost (splay lt k l) r, true)
    else (.node l x r, false)

/-- `splay_check(t, out_tmin, out_tmax, cmp)`: `some (min, max)` of a valid non-empty tree -/
def splayCheck (lt : Int → Int → Bool) : Tree → Option (Option (Int × Int))
  | .nil => some none
  | .node l x r =>
    match splayCheck lt l, splayCheck lt r with
    | some bl, some br =>
      let okl := match bl with | some (_, mx) => !lt x mx | none => true
      let okr := match br with | some (mn, _) => !lt mn x | none => true
      if okl && okr then
        some (some ((match bl with | some (mn, _) => mn | none => x),
                    (match br with | some (_, mx) => mx | none => x)))
      else none
    | _, _ => none

/-- the `SplayTree` object: `root_`, `size_`, and the node ledger (allocated, freed) -/
structure ST where
  root : Tree := .nil
  size : Nat := 0
  allocs : Nat := 0
  frees : Nat := 0
  deriving Repr, Inhabited

/-- `insert(k)` -/
def ST.insert (lt : Int → Int → Bool) (dup : Bool) (s : ST) (k : Int) : ST × Bool :=
  match s.root with
  | .nil => ({ s with root := splayInsert lt k .nil, size := s.size + 1, allocs := s.allocs + 1 }, true)
  | t =>
    let t' := splay lt k t
    match t' with
    | .node _ x _ =>
      if !dup && !lt k x && !lt x k then ({ s with root := t' }, false)
      else ({ s with root := splayInsert lt k t', size := s.size + 1, allocs := s.allocs + 1 }, true)
    | .nil => ({ s with root := splayInsert lt k t', size := s.size + 1, allocs := s.allocs + 1 }, true)

/-- `erase(k)` -/
def ST.erase (lt : Int → Int → Bool) (s : ST) (k : Int) : ST × Bool :=
  match s.root with
  | .nil => (s, false)
  | t =>
    let (t', found) := splayErase lt k t
    if found then ({ s with root := t', size := s.size - 1, frees := s.frees + 1 }, true)
    else ({ s with root := t' }, false)

/-- `clear()`: post-order deletion of every node, `root_ = nullptr` -/
def ST.clear (s : ST) : ST :=
  { s with root := .nil, size := s.size - s.root.size, frees := s.frees + s.root.size }

/-- `exists(k)` -/
def ST.exists (lt : Int → Int → Bool) (s : ST) (k : Int) : ST × Bool :=
  match s.root with
  | .nil => (s, false)
  | t =>
    let t' := splay lt k t
    match t' with
    | .node _ x _ => ({ s with root := t' }, !lt x k && !lt k x)
    | .nil => ({ s with root := t' }, false)

/-- `find(k)`: the new root (its key), `none` = `nullptr` -/
def ST.find (lt : Int → Int → Bool) (s : ST) (k : Int) : ST × Option Int :=
  let t' := splay lt k s.root
  ({ s with root := t' }, match t' with | .node _ x _ => some x | .nil => none)

/-- `check()` -/
def ST.check (lt : Int → Int → Bool) (s : ST) : Bool := (splayCheck lt s.root).isSome

end TlxVerif.C17
