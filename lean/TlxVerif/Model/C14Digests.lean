import TlxVerif.Model.C14Class
import TlxVerif.Gen.C14Tables
/-!
C14 — the four compress functions as written in tlx/digest/*.cpp (tables and amounts taken
from the generated `Gen/C14Tables.lean`), and the four classes as instances of the shared
state machine.  `rol32/ror32/rol64/ror64` are `BitVec.rotateLeft/rotateRight` (x86 `rol/ror`
instructions in the sources; intrinsic semantics is part of the trusted base).  The load /
store helpers are transliterated (`load32h`, `loadLoop`, `storeLoop`) and proved to be the
big- and little-endian conversions in `Proofs/C14LoadStore.lean`.
-/
namespace TlxVerif.C14.Model

open TlxVerif.C14

/-! ### the one-line load / store helpers of the sources, as written -/

/-- sha1 `load32h`, sha256 `load32`:
    `(u32(y[0]) << 24) | (u32(y[1]) << 16) | (u32(y[2]) << 8) | (u32(y[3]) << 0)` -/
def load32h (y : Bytes) : BitVec 32 :=
  ((y.getD 0 0).setWidth 32 <<< 24) ||| ((y.getD 1 0).setWidth 32 <<< 16) |||
  ((y.getD 2 0).setWidth 32 <<< 8) ||| ((y.getD 3 0).setWidth 32 <<< 0)

/-- md5 `load32l` (`sh i = i*8`, n = 4), sha512 `load64` (`sh i = (7-i)*8`, n = 8):
    `res = 0; for (i = 0; i != n; ++i) res |= uintW(y[i]) << sh(i);` -/
def loadLoop (w n : Nat) (sh : Nat → Nat) (y : Bytes) : BitVec w :=
  (List.range n).foldl (fun res i => res ||| ((y.getD i 0).setWidth w <<< sh i)) 0

/-- `store32/store32h/store64/store64h` (`sh i = (n-1-i)*8`), `store32l/store64l` (`sh i = i*8`):
    `for (i = 0; i != n; ++i) y[i] = (x >> sh(i)) & 255;` -/
def storeLoop {w : Nat} (n : Nat) (sh : Nat → Nat) (x : BitVec w) : Bytes :=
  (List.range n).map fun i => ((x >>> sh i) &&& 255).setWidth 8

/-- `loadNN(buf + k*i)` for `i < n`: the words of a block -/
def loadWords {w : Nat} (ld : Bytes → BitVec w) (k n : Nat) (buf : Bytes) : List (BitVec w) :=
  (List.range n).map fun i => ld ((buf.drop (k * i)).take k)

/-! ### MD5 (md5.cpp) -/
namespace MD5
abbrev Word := BitVec 32

def F (x y z : Word) : Word := z ^^^ (x &&& (y ^^^ z))
def G (x y z : Word) : Word := y ^^^ (z &&& (y ^^^ x))
def H (x y z : Word) : Word := x ^^^ y ^^^ z
def I (x y z : Word) : Word := y ^^^ (x ||| ~~~z)

/-- `FF/GG/HH/II(a, b, c, d, W[Worder[i]], Rorder[i], Korder[i]); t = d, d = c, c = b, b = a, a = t;` -/
def step (fn : Word → Word → Word → Word) (W : List Word) (s : List Word) (i : Nat) : List Word :=
  match s with
  | [a, b, c, d] =>
    let a := a + fn b c d + W.getD (Gen.md5Worder.getD i 0) 0 + Gen.md5Korder.getD i 0
    let a := a.rotateLeft (Gen.md5Rorder.getD i 0) + b
    [d, a, b, c]
  | _ => s

def compress (state : List Word) (buf : Bytes) : List Word :=
  let W := loadWords (loadLoop 32 4 (fun i => i * 8)) 4 16 buf
  let s := state
  let s := (List.range' 0 16).foldl (step F W) s
  let s := (List.range' 16 16).foldl (step G W) s
  let s := (List.range' 32 16).foldl (step H W) s
  let s := (List.range' 48 16).foldl (step I W) s
  List.zipWith (· + ·) state s

/-- the loop bounds and step functions the four `foldl`s above transliterate -/
def loopsModelled : List (Nat × String) := [(16, "FF"), (32, "GG"), (48, "HH"), (64, "II")]

def params : Params (List Word) where
  blockSize := Gen.md5Class.1
  padLimit := Gen.md5Class.2.1
  fillTo := Gen.md5Class.2.2.1
  lenPos := Gen.md5Class.2.2.2.1
  compress := compress
  storeLen := storeLoop 8 (fun i => i * 8)                     -- store64l
  init := Gen.md5Init
  output := fun s => s.flatMap (storeLoop 4 (fun i => i * 8))  -- store32l
end MD5

/-! ### SHA-1 (sha1.cpp) -/
namespace SHA1
abbrev Word := BitVec 32

def F0 (x y z : Word) : Word := z ^^^ (x &&& (y ^^^ z))
def F1 (x y z : Word) : Word := x ^^^ y ^^^ z
def F2 (x y z : Word) : Word := (x &&& y) ||| (z &&& (x ||| y))
def F3 (x y z : Word) : Word := x ^^^ y ^^^ z

/-- one loop body: `e = rol32(a, ra) + F(b, c, d) + e + W[i] + K; b = rol32(b, rb);
    t = e, e = d, d = c, c = b, b = a, a = t;` -/
def step (fn : Word → Word → Word → Word) (k : Word) (ra rb : Nat) (W : List Word)
    (s : List Word) (i : Nat) : List Word :=
  match s with
  | [a, b, c, d, e] =>
    let e := a.rotateLeft ra + fn b c d + e + W.getD i 0 + k
    let b := b.rotateLeft rb
    [e, a, b, c, d]
  | _ => s

def fnOf : String → Word → Word → Word → Word
  | "F0" => F0 | "F1" => F1 | "F2" => F2 | _ => F3

/-- the four round loops, with bound / function / constant / rotations from the source -/
def rounds (W : List Word) (s : List Word) : List Word :=
  (Gen.sha1Loops.foldl (fun (acc : List Word × Nat) l =>
      let (s, lo) := acc
      let (hi, fname, k, ra, rb) := l
      ((List.range' lo (hi - lo)).foldl (step (fnOf fname) k ra rb W) s, hi)) (s, 0)).1

def compress (state : List Word) (buf : Bytes) : List Word :=
  let W := loadWords load32h 4 16 buf
  -- for (i = 16; i < 80; i++) W[i] = rol32(W[i-3] ^ W[i-8] ^ W[i-14] ^ W[i-16], 1)
  let W := (List.range' 16 (Gen.sha1Expand.getD 0 0 - 16)).foldl (fun W i =>
    W ++ [(W.getD (i - Gen.sha1Expand.getD 1 0) 0 ^^^ W.getD (i - Gen.sha1Expand.getD 2 0) 0 ^^^
           W.getD (i - Gen.sha1Expand.getD 3 0) 0 ^^^ W.getD (i - Gen.sha1Expand.getD 4 0) 0).rotateLeft
           (Gen.sha1Expand.getD 5 0)]) W
  List.zipWith (· + ·) state (rounds W state)

def params : Params (List Word) where
  blockSize := Gen.sha1Class.1
  padLimit := Gen.sha1Class.2.1
  fillTo := Gen.sha1Class.2.2.1
  lenPos := Gen.sha1Class.2.2.2.1
  compress := compress
  storeLen := storeLoop 8 (fun i => (7 - i) * 8)                     -- store64h
  init := Gen.sha1Init
  output := fun s => s.flatMap (storeLoop 4 (fun i => (3 - i) * 8))  -- store32h
end SHA1

/-! ### SHA-256 / SHA-512 (sha256.cpp, sha512.cpp): same code at two word sizes -/
namespace SHA2

def Ch {w : Nat} (x y z : BitVec w) : BitVec w := z ^^^ (x &&& (y ^^^ z))
def Maj {w : Nat} (x y z : BitVec w) : BitVec w := ((x ||| y) &&& z) ||| (x &&& y)

/-- `ror(x, r0) ^ ror(x, r1) ^ ror(x, r2)` -/
def Sigma {w : Nat} (r : List Nat) (x : BitVec w) : BitVec w :=
  x.rotateRight (r.getD 0 0) ^^^ x.rotateRight (r.getD 1 0) ^^^ x.rotateRight (r.getD 2 0)

/-- `ror(x, r0) ^ ror(x, r1) ^ Sh(x, r2)` -/
def Gamma {w : Nat} (r : List Nat) (x : BitVec w) : BitVec w :=
  x.rotateRight (r.getD 0 0) ^^^ x.rotateRight (r.getD 1 0) ^^^ (x >>> r.getD 2 0)

/-- the `RND` lambda applied to the array slots `idx = [ia, …, ih]`:
    `t0 = h + Sigma1(e) + Ch(e,f,g) + K[i] + W[i]; t1 = Sigma0(a) + Maj(a,b,c); d += t0; h = t0 + t1;` -/
def RND {w : Nat} (rot : List (List Nat)) (K W : List (BitVec w)) (S : List (BitVec w))
    (idx : List Nat) (i : Nat) : List (BitVec w) :=
  let g := fun k => S.getD (idx.getD k 0) 0
  let t0 := g 7 + Sigma (rot.getD 1 []) (g 4) + Ch (g 4) (g 5) (g 6) + K.getD i 0 + W.getD i 0
  let t1 := Sigma (rot.getD 0 []) (g 0) + Maj (g 0) (g 1) (g 2)
  (S.set (idx.getD 3 0) (g 3 + t0)).set (idx.getD 7 0) (t0 + t1)

/-- `for (i = 16; i < n; i++) W[i] = Gamma1(W[i-2]) + W[i-7] + Gamma0(W[i-15]) + W[i-16];` -/
def expand {w : Nat} (rot : List (List Nat)) (n : Nat) (W : List (BitVec w)) : List (BitVec w) :=
  (List.range' 16 (n - 16)).foldl (fun W i =>
    W ++ [Gamma (rot.getD 3 []) (W.getD (i - 2) 0) + W.getD (i - 7) 0 +
          Gamma (rot.getD 2 []) (W.getD (i - 15) 0) + W.getD (i - 16) 0]) W
end SHA2

namespace SHA256
abbrev Word := BitVec 32

/-- `t = S[7], S[7] = S[6], …, S[1] = S[0], S[0] = t` -/
def rotate (S : List Word) : List Word :=
  match S with
  | [s0, s1, s2, s3, s4, s5, s6, s7] => [s7, s0, s1, s2, s3, s4, s5, s6]
  | _ => S

def compress (state : List Word) (buf : Bytes) : List Word :=
  let W := SHA2.expand Gen.sha256Rot 64 (loadWords load32h 4 16 buf)
  let S := (List.range 64).foldl (fun S i =>
    rotate (SHA2.RND Gen.sha256Rot Gen.sha256K W S [0, 1, 2, 3, 4, 5, 6, 7] i)) state
  List.zipWith (· + ·) state S

def params : Params (List Word) where
  blockSize := Gen.sha256Class.1
  padLimit := Gen.sha256Class.2.1
  fillTo := Gen.sha256Class.2.2.1
  lenPos := Gen.sha256Class.2.2.2.1
  compress := compress
  storeLen := storeLoop 8 (fun i => (7 - i) * 8)                     -- store64
  init := Gen.sha256Init
  output := fun s => s.flatMap (storeLoop 4 (fun i => (3 - i) * 8))  -- store32
end SHA256

namespace SHA512
abbrev Word := BitVec 64

/-- `for (i = 0; i < 80; i += 8) { RND(S[0],…,S[7], i+0); RND(S[7],S[0],…,S[6], i+1); … }`:
    the argument rotation of the unrolled calls comes from the source (`Gen.sha512RndOrder`) -/
def compress (state : List Word) (buf : Bytes) : List Word :=
  let W := SHA2.expand Gen.sha512Rot 80 (loadWords (loadLoop 64 8 (fun i => (7 - i) * 8)) 8 16 buf)
  let S := (List.range (Gen.sha512RoundLoop.1 / Gen.sha512RoundLoop.2)).foldl (fun S j =>
    (Gen.sha512RndOrder.zipIdx).foldl (fun S (p : List Nat × Nat) =>
      SHA2.RND Gen.sha512Rot Gen.sha512K W S p.1 (Gen.sha512RoundLoop.2 * j + p.2)) S) state
  List.zipWith (· + ·) state S

def params : Params (List Word) where
  blockSize := Gen.sha512Class.1
  padLimit := Gen.sha512Class.2.1
  fillTo := Gen.sha512Class.2.2.1
  lenPos := Gen.sha512Class.2.2.2.1
  compress := compress
  storeLen := storeLoop 8 (fun i => (7 - i) * 8)                     -- store64
  init := Gen.sha512Init
  output := fun s => s.flatMap (storeLoop 8 (fun i => (7 - i) * 8))  -- store64
end SHA512

/-! ### output forms -/

/-- `digest_hex()` = `hexdump_lc(digest, kDigestLength)` -/
def hexLower (d : Bytes) : String := hexdumpWith Gen.hexLower d
/-- `digest_hex_uc()` = `hexdump(digest, kDigestLength)` -/
def hexUpper (d : Bytes) : String := hexdumpWith Gen.hexUpper d

end TlxVerif.C14.Model
