/-
Model of `tlx::RadixHeap` (tlx/container/radix_heap.hpp) with its helpers
`IntegerRank`, `BucketComputation` and `BitArray`/`BitArrayRecursive`.

Keys are bit patterns `BitVec w` (`w` = 8·sizeof(KeyType)); `signed` says whether KeyType is a
signed type.  The heap works on *ranks* (`rank_of_int`, an unsigned `BitVec w`).
A bucket is a `std::vector<value_type>` (here `Array (key × payload)`, `back()` = last).
Out-of-range indexing, `find_lsb()` of an empty bit array (`die_unless`) and violated
documented preconditions are `none`.
-/
namespace TlxVerif.C13

structure RCfg where
  w : Nat          -- number of bits of the key type
  signed : Bool
  rb : Nat         -- radix_bits = Log2<Radix>::floor ; Radix = 2^rb
  deriving Repr, DecidableEq, Inhabited

def RCfg.radix (c : RCfg) : Nat := 2 ^ c.rb

/-! ### IntegerRank -/

/-- `sign_bit_ = rank_type(1) << (8 * sizeof(rank_type) - 1)` -/
def signBit (w : Nat) : BitVec w := (1#w) <<< (w - 1)

/-- `rank_of_int` -/
def rankOfInt (c : RCfg) (k : BitVec c.w) : BitVec c.w :=
  if c.signed then k ^^^ signBit c.w else k

/-- `int_at_rank` -/
def intAtRank (c : RCfg) (r : BitVec c.w) : BitVec c.w :=
  if c.signed then r ^^^ signBit c.w else r

/-- the value of a key as the C++ type sees it -/
def keyVal (c : RCfg) (k : BitVec c.w) : Int := if c.signed then k.toInt else (k.toNat : Int)

/-! ### BucketComputation -/

/-- width of `x ^ insertion_limit` after the usual arithmetic conversions (`int` for 8/16-bit keys) -/
def promotedWidth (w : Nat) : Nat := if w < 32 then 32 else w

/-- `clz(x)` on a `pw`-bit word (specification of `__builtin_clz*`; `pw` for `x = 0`) -/
def clz (pw : Nat) (x : Nat) : Nat := if x = 0 then pw else pw - 1 - Nat.log2 x

/-- `BucketComputation::operator()(x, insertion_limit)`.
`bucket_in_row = ((x >> (radix_bits * row)) & mask) - row` and `row * Radix + bucket_in_row`
are `size_t` computations; their sum is written here in an order that never goes below zero
(`digit ≥ 1` for `row ≥ 1` is a theorem, not an assumption: `Nat` subtraction would truncate). -/
def bucketOf (c : RCfg) (x lim : BitVec c.w) : Nat :=
  let diff := x ^^^ lim
  if diff = 0 then 0 else
  let pw := promotedWidth c.w
  let diffInBit := (pw - 1) - clz pw diff.toNat
  let row := diffInBit / c.rb
  let digit := (x.toNat >>> (c.rb * row)) &&& (2 ^ c.rb - 1)
  row * 2 ^ c.rb + digit - row

/-- `num_buckets_(bits)` -/
def numBucketsAux (rb : Nat) (bits : Nat) : Nat :=
  if h : rb = 0 then 0
  else if bits ≥ rb then (2 ^ rb - 1) + numBucketsAux rb (bits - rb) else 2 ^ bits - 1
termination_by bits
decreasing_by omega

/-- `num_buckets` -/
def numBuckets (c : RCfg) : Nat := numBucketsAux c.rb c.w + 1

/-! ### BitArray (one or two levels of 64-bit words; `num_buckets ≤ 4096` for every Radix ≤ 64) -/

/-- `ffs(flags) - 1` for `flags ≠ 0`: index of the least significant set bit -/
def findLsbWord (x : BitVec 64) : Option Nat :=
  (List.range 64).find? fun i => x.getLsbD i

def setBitWord (x : BitVec 64) (i : Nat) : BitVec 64 := x ||| ((1#64) <<< i)
def clearBitWord (x : BitVec 64) (i : Nat) : BitVec 64 := x &&& ~~~((1#64) <<< i)

structure BitArr where
  nb : Nat
  root : BitVec 64 := 0
  kids : Array (BitVec 64) := #[]
  deriving Repr, Inhabited

/-- default construction: all flags zero -/
def BitArr.mk' (nb : Nat) : BitArr :=
  { nb := nb, root := 0, kids := Array.replicate ((nb + 63) / 64) 0 }

def BitArr.clearAll (b : BitArr) : BitArr := BitArr.mk' b.nb

def BitArr.setBit (b : BitArr) (i : Nat) : Option BitArr :=
  if i < b.nb then
    match b.kids[i / 64]? with
    | some k => some { b with root := setBitWord b.root (i / 64), kids := b.kids.set! (i / 64) (setBitWord k (i % 64)) }
    | none => none
  else none

def BitArr.clearBit (b : BitArr) (i : Nat) : Option BitArr :=
  if i < b.nb then
    match b.kids[i / 64]? with
    | some k =>
      let k' := clearBitWord k (i % 64)
      some { b with kids := b.kids.set! (i / 64) k',
                    root := if k' = 0 then clearBitWord b.root (i / 64) else b.root }
    | none => none
  else none

def BitArr.isSet (b : BitArr) (i : Nat) : Bool :=
  match b.kids[i / 64]? with
  | some k => k.getLsbD (i % 64)
  | none => false

def BitArr.empty (b : BitArr) : Bool := b.root == 0

/-- `find_lsb()`; `none` when empty (`die_unless(!empty())`) -/
def BitArr.findLsb (b : BitArr) : Option Nat := do
  let ci ← findLsbWord b.root
  let k ← b.kids[ci]?
  let cv ← findLsbWord k
  pure (ci * 64 + cv)

/-! ### RadixHeap -/

abbrev RVal (w : Nat) := BitVec w × Nat      -- (key, payload)

structure RH (c : RCfg) where
  size : Nat
  limit : BitVec c.w                 -- insertion_limit_ (a rank)
  cur : Nat                          -- current_bucket_
  buckets : Array (Array (RVal c.w)) -- buckets_data_
  mins : Array (BitVec c.w)          -- mins_ (ranks)
  filled : BitArr                    -- filled_

def maxRank (w : Nat) : BitVec w := BitVec.allOnes w

/-- constructor / `initialize_()` on empty buckets -/
def RH.init (c : RCfg) : RH c :=
  { size := 0, limit := 0, cur := 0,
    buckets := Array.replicate (numBuckets c) #[],
    mins := Array.replicate (numBuckets c) (maxRank c.w),
    filled := BitArr.mk' (numBuckets c) }

/-- `clear()` -/
def RH.clear {c : RCfg} (_ : RH c) : RH c := RH.init c

/-- the three statements shared by `push_to_bucket`, `emplace_in_bucket` and the body of the
redistribution loop of `reorganize_()`:
`if (buckets_data_[idx].empty()) filled_.set_bit(idx); buckets_data_[idx].push_back(x);
 if (mins_[idx] > key) mins_[idx] = key;` -/
def RH.insert {c : RCfg} (h : RH c) (idx : Nat) (x : RVal c.w) : Option (RH c) := do
  let key := rankOfInt c x.1
  let b ← h.buckets[idx]?
  let filled ← if b.isEmpty then h.filled.setBit idx else some h.filled
  let m ← h.mins[idx]?
  let mins := if m.toNat > key.toNat then h.mins.set! idx key else h.mins
  pure { h with buckets := h.buckets.set! idx (b.push x), filled := filled, mins := mins }

/-- `push_to_bucket(idx, value)` (and `emplace_in_bucket`: same effects): the insertion, then `size_++` -/
def RH.pushToBucket {c : RCfg} (h : RH c) (idx : Nat) (v : RVal c.w) : Option (RH c) :=
  (h.insert idx v).map fun h' => { h' with size := h'.size + 1 }

/-- `push(value)` / `emplace(key, …)`: returns the bucket index as well -/
def RH.push {c : RCfg} (h : RH c) (v : RVal c.w) : Option (RH c × Nat) := do
  let enc := rankOfInt c v.1
  let idx := bucketOf c enc h.limit
  let h' ← h.pushToBucket idx v
  pure (h', idx)

/-- `get_bucket_key(key)` -/
def RH.getBucketKey {c : RCfg} (h : RH c) (k : BitVec c.w) : Nat := bucketOf c (rankOfInt c k) h.limit

/-- the redistribution loop of `reorganize_()` over `data_source` -/
def RH.redistribute {c : RCfg} (h : RH c) : List (RVal c.w) → Option (RH c)
  | [] => some h
  | x :: rest =>
    match h.insert (bucketOf c (rankOfInt c x.1) h.limit) x with
    | none => none
    | some h' => RH.redistribute h' rest

/-- `reorganize_()` (precondition `!empty()`) -/
def RH.reorganize {c : RCfg} (h : RH c) : Option (RH c) :=
  if h.size = 0 then none else
  match h.buckets[h.cur]? with
  | none => none
  | some bc =>
    -- nothing do to if we already know a suited bucket
    if !bc.isEmpty then some h else
    if h.cur ≥ h.mins.size then none else
    -- mark current bucket as empty
    let mins := h.mins.set! h.cur (maxRank c.w)
    match h.filled.clearBit h.cur with
    | none => none
    | some filled =>
      -- find a non-empty bucket
      match filled.findLsb with
      | none => none
      | some first =>
        if first < c.radix then some { h with mins := mins, filled := filled, cur := first } else
        -- update insertion limit, redistribute `data_source`
        match mins[first]?, h.buckets[first]? with
        | some newLimit, some src =>
          match RH.redistribute { h with mins := mins, filled := filled, limit := newLimit } src.toList with
          | none => none
          | some h2 =>
            -- data_source.clear(); mark consumed bucket as empty
            match h2.filled.clearBit first with
            | none => none
            | some filled2 =>
              let h3 : RH c := { h2 with buckets := h2.buckets.set! first #[],
                                         mins := h2.mins.set! first (maxRank c.w), filled := filled2 }
              match h3.filled.findLsb with
              | none => none
              | some cur => some { h3 with cur := cur }
        | _, _ => none

/-- `top()` -/
def RH.top {c : RCfg} (h : RH c) : Option (RH c × RVal c.w) := do
  let h' ← h.reorganize
  let b ← h'.buckets[h'.cur]?
  let v ← b.back?
  pure (h', v)

/-- `pop()`; additionally returns the removed element (the C++ function returns nothing) -/
def RH.pop {c : RCfg} (h : RH c) : Option (RH c × RVal c.w) := do
  let h' ← h.reorganize
  let b ← h'.buckets[h'.cur]?
  let v ← b.back?
  let b' := b.pop
  let filled ← if b'.isEmpty then h'.filled.clearBit h'.cur else some h'.filled
  pure ({ h' with buckets := h'.buckets.set! h'.cur b', filled := filled, size := h'.size - 1 }, v)

/-- `swap_top_bucket(exchange_bucket)` with an empty exchange bucket; returns its new contents -/
def RH.swapTopBucket {c : RCfg} (h : RH c) : Option (RH c × Array (RVal c.w)) := do
  let h' ← h.reorganize
  let b ← h'.buckets[h'.cur]?
  let filled ← h'.filled.clearBit h'.cur
  pure ({ h' with buckets := h'.buckets.set! h'.cur #[], filled := filled, size := h'.size - b.size }, b)

/-- `peak_top_key()` (precondition `!empty()`) -/
def RH.peakTopKey {c : RCfg} (h : RH c) : Option (BitVec c.w) := do
  if h.size = 0 then none
  let first ← h.filled.findLsb
  let m ← h.mins[first]?
  pure (intAtRank c m)

end TlxVerif.C13
