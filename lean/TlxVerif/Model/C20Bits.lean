/-
C20 — executable model of tlx/math integer helpers (transliteration of the code as it exists).

An integral C++ type is a width `w` (8/16/32/64) plus a signedness flag `sg`; a value is its
bit pattern `BitVec w`.  Integral promotion of the 8/16-bit types to `int` is invisible for the
bit-level functions (truncation is a ring/bitwise homomorphism) and is modelled explicitly where
it matters (`div_ceil`, `round_up`: computed and returned as `int`).

Loops are fuel-bounded recursions returning `Option`; `none` = fuel exhausted (the C++ loop
would not have terminated within the bound).  The theorems in Props/C20 show `some _`.

Compiler intrinsics / inline assembler (`__builtin_clz*`, `__builtin_ctz*`, `__builtin_ffs*`,
`__builtin_popcount*`, `__builtin_bswap*`, `rol/ror` instructions) are *specified*, not
modelled: they appear as the `spec*` functions below (trusted base, compared exhaustively with
the code by the correspondence).
-/
namespace TlxVerif.C20

/-! ## C++ operators on a `w`-bit integral type -/

/-- mathematical value of the pattern -/
def val (sg : Bool) (x : BitVec w) : Int := if sg then x.toInt else (x.toNat : Int)

/-- C++ `x >> k` : arithmetic shift for signed types -/
def shr (sg : Bool) (x : BitVec w) (k : Nat) : BitVec w :=
  if sg then x.sshiftRight k else x >>> k

/-- C++ `a < b` -/
def clt (sg : Bool) (a b : BitVec w) : Bool := if sg then a.slt b else a.ult b

/-- C++ `a / b` (truncating) -/
def cdiv (sg : Bool) (a b : BitVec w) : BitVec w := if sg then a.sdiv b else a / b

/-- C++ `a % b` (sign of the dividend) -/
def cmod (sg : Bool) (a b : BitVec w) : BitVec w := if sg then a.srem b else a % b

/-! ## specifications (mathematical definitions on natural numbers) -/

/-- number of one bits among the low `w` bits of `n` -/
def popc : Nat → Nat → Nat
  | 0, _ => 0
  | w + 1, n => n % 2 + popc w (n / 2)

/-- index of the lowest set bit among the low `w` bits of `n`; `w` if there is none -/
def ctzB : Nat → Nat → Nat
  | 0, _ => 0
  | w + 1, n => if n % 2 = 1 then 0 else 1 + ctzB w (n / 2)

/-- number of significant bits of `n` (`0` for `0`), looking at the low `w` bits:
    `bitLen w n = ⌊log₂ n⌋ + 1` for `0 < n < 2^w` (theorem `bitLen_eq_log2`) -/
def bitLen : Nat → Nat → Nat
  | 0, _ => 0
  | w + 1, n => if n = 0 then 0 else 1 + bitLen w (n / 2)

/-- `__builtin_clz*` on a non-zero `w`-bit pattern: number of leading zero bits -/
def specClz (x : BitVec w) : Nat := w - bitLen w x.toNat
/-- `__builtin_ctz*` on a non-zero pattern: number of trailing zero bits -/
def specCtz (x : BitVec w) : Nat := ctzB w x.toNat
/-- `__builtin_ffs*`: one plus the index of the least significant one bit, `0` for `0` -/
def specFfs (x : BitVec w) : Nat := if x.toNat = 0 then 0 else ctzB w x.toNat + 1
/-- `__builtin_popcount*` -/
def specPopcount (x : BitVec w) : Nat := popc w x.toNat
/-- `__builtin_bswap*`: byte `i` of the result is byte `w/8 - 1 - i` of the argument -/
def specBswap (x : BitVec w) : BitVec w :=
  (List.range (w / 8)).foldl
    (fun r i => r ||| (((x >>> (8 * i)) &&& 0xFF#w) <<< (w - 8 - 8 * i))) 0#w
/-- `rol` instruction: the count register is taken modulo the width -/
def specRol (x : BitVec w) (i : BitVec 32) : BitVec w := x.rotateLeft (i.toNat % w)
def specRor (x : BitVec w) (i : BitVec 32) : BitVec w := x.rotateRight (i.toNat % w)

/-! ## clz.hpp -/

/-- `while ((x & (Integral(1) << (8*sizeof(x)-1))) == 0) x <<= 1, ++r;` -/
def clzLoop : Nat → BitVec w → Nat → Option Nat
  | 0, _, _ => none
  | fuel + 1, x, r =>
    if x &&& (1#w <<< (w - 1)) = 0#w then clzLoop fuel (x <<< 1) (r + 1) else some r

/-- `clz_template` -/
def clzTemplate (x : BitVec w) : Option Nat :=
  if x = 0#w then some w else clzLoop w x 0

/-- `clz<unsigned>`, `clz<unsigned long>`, … (gcc/clang branch); the signed overloads cast -/
def clzOverload (x : BitVec w) : Nat :=
  if x = 0#w then w else specClz x

/-! ## ctz.hpp / ffs.hpp -/

/-- `while ((x & 1) == 0) x >>= 1, ++r;` -/
def ctzLoop (sg : Bool) : Nat → BitVec w → Nat → Option Nat
  | 0, _, _ => none
  | fuel + 1, x, r =>
    if x &&& 1#w = 0#w then ctzLoop sg fuel (shr sg x 1) (r + 1) else some r

/-- `ctz_template` -/
def ctzTemplate (sg : Bool) (x : BitVec w) : Option Nat :=
  if x = 0#w then some w else ctzLoop sg w x 0

def ctzOverload (x : BitVec w) : Nat :=
  if x = 0#w then w else specCtz x

/-- `ffs_template` -/
def ffsTemplate (sg : Bool) (x : BitVec w) : Option Nat :=
  if x = 0#w then some 0 else ctzLoop sg w x 1

def ffsOverload (x : BitVec w) : Nat := specFfs x

/-! ## popcount.hpp -/

def popcountGeneric8 (x : BitVec 8) : Nat :=
  let x := x - ((x >>> 1) &&& 0x55#8)
  let x := (x &&& 0x33#8) + ((x >>> 2) &&& 0x33#8)
  ((x + (x >>> 4)) &&& 0x0F#8).toNat

def popcountGeneric16 (x : BitVec 16) : Nat :=
  let x := x - ((x >>> 1) &&& 0x5555#16)
  let x := (x &&& 0x3333#16) + ((x >>> 2) &&& 0x3333#16)
  ((((x + (x >>> 4)) &&& 0x0F0F#16) * 0x0101#16) >>> 8).toNat

def popcountGeneric32 (x : BitVec 32) : Nat :=
  let x := x - ((x >>> 1) &&& 0x55555555#32)
  let x := (x &&& 0x33333333#32) + ((x >>> 2) &&& 0x33333333#32)
  ((((x + (x >>> 4)) &&& 0x0F0F0F0F#32) * 0x01010101#32) >>> 24).toNat

def popcountGeneric64 (x : BitVec 64) : Nat :=
  let x := x - ((x >>> 1) &&& 0x5555555555555555#64)
  let x := (x &&& 0x3333333333333333#64) + ((x >>> 2) &&& 0x3333333333333333#64)
  ((((x + (x >>> 4)) &&& 0x0F0F0F0F0F0F0F0F#64) * 0x0101010101010101#64) >>> 56).toNat

def popcountOverload (x : BitVec w) : Nat := specPopcount x

/-- an unaligned little-endian load of `bs.length` bytes (`memcpy` into an integer on x86;
    the byte order is irrelevant for the bit count) -/
def loadLE (w : Nat) : List (BitVec 8) → BitVec w
  | [] => 0#w
  | b :: bs => (loadLE w bs <<< 8) ||| b.setWidth w

/-- the tail of `popcount(const void*, size_t)`: `if (begin + 3 < end)` one 32-bit word, then bytes -/
def popcountBufTail : List (BitVec 8) → Nat
  | b0 :: b1 :: b2 :: b3 :: rest =>
    popcountOverload (loadLE 32 [b0, b1, b2, b3]) + (rest.map fun b => popcountOverload b).sum
  | bs => (bs.map fun b => popcountOverload b).sum

/-- `popcount(const void* data, size_t size)`: `while (begin + 7 < end)` 64-bit words first -/
def popcountBuf : List (BitVec 8) → Nat
  | b0 :: b1 :: b2 :: b3 :: b4 :: b5 :: b6 :: b7 :: rest =>
    popcountOverload (loadLE 64 [b0, b1, b2, b3, b4, b5, b6, b7]) + popcountBuf rest
  | bs => popcountBufTail bs

/-! ## integer_log2.hpp -/

/-- `while (i >= 65536) i >>= 16, p += 16;` (and the same with 256 / 8) -/
def log2LoopA (sg : Bool) (bound : Int) (s : Nat) : Nat → BitVec w → Nat → Option (BitVec w × Nat)
  | 0, _, _ => none
  | fuel + 1, i, p =>
    if val sg i ≥ bound then log2LoopA sg bound s fuel (shr sg i s) (p + s) else some (i, p)

/-- `while (i >>= 1) ++p;` -/
def log2LoopB (sg : Bool) : Nat → BitVec w → Nat → Option Nat
  | 0, _, _ => none
  | fuel + 1, i, p =>
    let i := shr sg i 1
    if i ≠ 0#w then log2LoopB sg fuel i (p + 1) else some p

/-- `integer_log2_floor_template` -/
def log2FloorTemplate (sg : Bool) (i : BitVec w) : Option Nat := do
  let (i, p) ← log2LoopA sg 65536 16 (w + 1) i 0
  let (i, p) ← log2LoopA sg 256 8 (w + 1) i p
  log2LoopB sg (w + 1) i p

/-- `integer_log2_floor(int)` … (gcc/clang branch) -/
def log2FloorOverload (i : BitVec w) : Nat :=
  if i = 0#w then 0 else w - 1 - specClz i

/-- `integer_log2_ceil` -/
def log2CeilOverload (sg : Bool) (i : BitVec w) : Nat :=
  if val sg i ≤ 1 then 0 else log2FloorOverload (i - 1#w) + 1

/-! ## is_power_of_two.hpp -/

def isPow2Template (sg : Bool) (i : BitVec w) : Bool :=
  if val sg i ≤ 0 then false else (i &&& (i - 1#w)) = 0#w

/-! ## round_to_power_of_two.hpp -/

/-- `for (size_t k = 1; k != 8 * sizeof(n); k <<= 1) n |= n >> k;` -/
def smearLoop (sg : Bool) : Nat → Nat → BitVec w → Option (BitVec w)
  | 0, _, _ => none
  | fuel + 1, k, n =>
    if k = w then some n else smearLoop sg fuel (k <<< 1) (n ||| shr sg n k)

/-- `round_up_to_power_of_two_template`: `--n; smear; ++n;` -/
def roundUpPow2Template (sg : Bool) (n : BitVec w) : Option (BitVec w) := do
  let m ← smearLoop sg (w + 1) 1 (n - 1#w)
  pure (m + 1#w)

/-- `round_down_to_power_of_two_template` (after the D26 repair): smear; `n - (n >> 1)` -/
def roundDownPow2Template (sg : Bool) (n : BitVec w) : Option (BitVec w) := do
  let m ← smearLoop sg (w + 1) 1 n
  pure (m - shr sg m 1)

/-! ## bswap.hpp -/

def bswap16Generic (x : BitVec 16) : BitVec 16 :=
  ((x >>> 8) &&& 0x00FF#16) ||| ((x <<< 8) &&& 0xFF00#16)

def bswap32Generic (x : BitVec 32) : BitVec 32 :=
  ((x >>> 24) &&& 0x000000FF#32) ||| ((x <<< 24) &&& 0xFF000000#32) |||
  ((x >>> 8) &&& 0x0000FF00#32) ||| ((x <<< 8) &&& 0x00FF0000#32)

def bswap64Generic (x : BitVec 64) : BitVec 64 :=
  ((x >>> 56) &&& 0x00000000000000FF#64) |||
  ((x >>> 40) &&& 0x000000000000FF00#64) |||
  ((x >>> 24) &&& 0x0000000000FF0000#64) |||
  ((x >>> 8) &&& 0x00000000FF000000#64) |||
  ((x <<< 8) &&& 0x000000FF00000000#64) |||
  ((x <<< 24) &&& 0x0000FF0000000000#64) |||
  ((x <<< 40) &&& 0x00FF000000000000#64) |||
  ((x <<< 56) &&& 0xFF00000000000000#64)

/-! ## rol.hpp / ror.hpp  (`i` is an `int`; `i & 31`, `32 - (i & 31)` are `int` arithmetic) -/

def rolGeneric (x : BitVec w) (i : BitVec 32) : BitVec w :=
  let m : BitVec 32 := BitVec.ofNat 32 (w - 1)
  (x <<< (i &&& m).toNat) ||| (x >>> ((BitVec.ofNat 32 w - (i &&& m)) &&& m).toNat)

def rorGeneric (x : BitVec w) (i : BitVec 32) : BitVec w :=
  let m : BitVec 32 := BitVec.ofNat 32 (w - 1)
  (x >>> (i &&& m).toNat) ||| (x <<< ((BitVec.ofNat 32 w - (i &&& m)) &&& m).toNat)

/-! ## div_ceil.hpp / round_up.hpp / abs_diff.hpp / sgn.hpp -/

/-- width of `decltype(n + k)` for two operands of the same type -/
def promW (w : Nat) : Nat := if w < 32 then 32 else w
/-- signedness of `decltype(n + k)`: narrow types promote to `int` -/
def promSg (w : Nat) (sg : Bool) : Bool := if w < 32 then true else sg
/-- integral promotion / identity -/
def prom (sg : Bool) (x : BitVec w) : BitVec (promW w) :=
  if sg then x.signExtend (promW w) else x.setWidth (promW w)

/-- `div_ceil` (after the D25 repair): `n / k + (n % k > 0 ? 1 : 0)` -/
def divCeil (sg : Bool) (n k : BitVec w) : BitVec (promW w) :=
  let s := promSg w sg
  let n := prom sg n
  let k := prom sg k
  cdiv s n k + (if clt s 0 (cmod s n k) then 1 else 0)

/-- `round_up` (after the D25 repair): `(n / k + (n % k > 0 ? 1 : 0)) * k` -/
def roundUp (sg : Bool) (n k : BitVec w) : BitVec (promW w) :=
  divCeil sg n k * prom sg k

/-! ### mixed argument types: the usual arithmetic conversions

`div_ceil<N,K>` / `round_up<N,K>` take `n` and `k` of *different* integral types and return
`decltype(n + k)`.  Both operands are promoted (`promW`/`promSg`), then converted to the common
type: the wider one; at equal width unsigned wins.  (LP64; only `int`/`long long` ranks occur.) -/

/-- width of `decltype(n + k)` for operands of widths `wn`, `wk` -/
def commW (wn wk : Nat) : Nat := max (promW wn) (promW wk)

/-- signedness of `decltype(n + k)` -/
def commSg (wn : Nat) (sn : Bool) (wk : Nat) (sk : Bool) : Bool :=
  if promW wn = promW wk then promSg wn sn && promSg wk sk
  else if promW wk < promW wn then promSg wn sn else promSg wk sk

/-- conversion of an operand of signedness `sg` to a type of width `W ≥ w`:
    sign extension for signed, zero extension for unsigned sources -/
def conv (sg : Bool) (x : BitVec w) (W : Nat) : BitVec W :=
  if sg then x.signExtend W else x.setWidth W

/-- `div_ceil(n, k)` for `n`, `k` of different types (repaired formula, computed in the common type) -/
def divCeilMixed (sn : Bool) (n : BitVec wn) (sk : Bool) (k : BitVec wk) : BitVec (commW wn wk) :=
  let s := commSg wn sn wk sk
  let n := conv sn n (commW wn wk)
  let k := conv sk k (commW wn wk)
  cdiv s n k + (if clt s 0 (cmod s n k) then 1 else 0)

/-- `round_up(n, k)` for `n`, `k` of different types -/
def roundUpMixed (sn : Bool) (n : BitVec wn) (sk : Bool) (k : BitVec wk) : BitVec (commW wn wk) :=
  divCeilMixed sn n sk k * conv sk k (commW wn wk)

/-- `abs_diff`: `a > b ? a - b : b - a` -/
def absDiff (sg : Bool) (a b : BitVec w) : BitVec w :=
  if clt sg b a then a - b else b - a

/-- `sgn`: `(T(0) < val) - (val < T(0))` -/
def sgn (sg : Bool) (v : BitVec w) : Int :=
  (if clt sg 0#w v then 1 else 0) - (if clt sg v 0#w then 1 else 0)

end TlxVerif.C20
