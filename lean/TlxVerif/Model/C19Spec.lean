/-
C19 — direct definitions (specifications) the theorems of Props/C19.lean compare the
transliterated models with.
-/
import TlxVerif.Model.C18Spec
namespace TlxVerif.C19
open TlxVerif.C18 (Bytes npos)
namespace Spec

/-! ### RFC 4648 -/

/-- RFC 4648 table 1, "The Base 64 Alphabet" -/
def alphabet : List UInt8 :=
  "ABCDEFGHIJKLMNOPQRSTUVWXYZabcdefghijklmnopqrstuvwxyz0123456789+/".toList.map fun c => UInt8.ofNat c.toNat

def b64char (n : Nat) : UInt8 := alphabet.getD n 0

/-- RFC 4648 §4: 24-bit groups as four 6-bit indices, `=` padding for a final group of 8 or 16 bits -/
def base64 : Bytes → Bytes
  | [] => []
  | [a] => [b64char (a.toNat / 4), b64char (a.toNat % 4 * 16), 61, 61]
  | [a, b] => [b64char (a.toNat / 4), b64char (a.toNat % 4 * 16 + b.toNat / 16), b64char (b.toNat % 16 * 4), 61]
  | a :: b :: c :: rest =>
    b64char (a.toNat / 4) :: b64char (a.toNat % 4 * 16 + b.toNat / 16) ::
    b64char (b.toNat % 16 * 4 + c.toNat / 64) :: b64char (c.toNat % 64) :: base64 rest

/-- RFC 4648 §8 (base 16): digit `n < 16` in upper / lower case -/
def hexDigitUC (n : Nat) : UInt8 := UInt8.ofNat (if n < 10 then 48 + n else 55 + n)
def hexDigitLC (n : Nat) : UInt8 := UInt8.ofNat (if n < 10 then 48 + n else 87 + n)

def base16 (digit : Nat → UInt8) (s : Bytes) : Bytes :=
  s.flatMap fun b => [digit (b.toNat / 16), digit (b.toNat % 16)]

end Spec
end TlxVerif.C19

namespace TlxVerif.C19
open TlxVerif.C18 (Bytes npos)
namespace Spec

/-! ### trim: remove the bytes of the drop set from the left / the right / both ends -/

def trimLeft (drop s : Bytes) : Bytes := s.dropWhile fun c => drop.contains c
def trimRight (drop s : Bytes) : Bytes := (s.reverse.dropWhile fun c => drop.contains c).reverse
def trim (drop s : Bytes) : Bytes := trimRight drop (trimLeft drop s)

end Spec
end TlxVerif.C19

namespace TlxVerif.C19
open TlxVerif.C18 (Bytes npos)
namespace Spec

/-! ### replace, split: direct recursive definitions ("leftmost occurrence first") -/

/-- replace the leftmost occurrence of `needle` -/
def replaceFirst (needle instead : Bytes) : Bytes → Bytes
  | [] => []
  | c :: t =>
    if needle.isPrefixOf (c :: t) then instead ++ (c :: t).drop needle.length
    else c :: replaceFirst needle instead t

/-- replace every occurrence of a non-empty `needle`, scanning from the left and continuing
behind each replaced occurrence -/
def replaceAll (needle instead : Bytes) (s : Bytes) : Bytes :=
  if h : needle = [] then s
  else
    match s with
    | [] => []
    | c :: t =>
      if needle.isPrefixOf (c :: t) then instead ++ replaceAll needle instead ((c :: t).drop needle.length)
      else c :: replaceAll needle instead t
termination_by s.length
decreasing_by
  · have : 0 < needle.length := List.length_pos_iff.mpr h
    simp only [List.length_drop, List.length_cons]; omega
  · simp

/-- position of the leftmost occurrence of `sep` -/
def firstOcc (sep : Bytes) : Bytes → Option Nat
  | [] => none
  | c :: t => if sep.isPrefixOf (c :: t) then some 0 else (firstOcc sep t).map (· + 1)

/-- split at the occurrences of a non-empty separator, leftmost first, into at most `limit`
parts (the last part keeps the remaining text) -/
def split (sep : Bytes) : Nat → Bytes → List Bytes
  | 0, _ => []
  | 1, s => [s]
  | n + 2, s =>
    match firstOcc sep s with
    | none => [s]
    | some i => s.take i :: split sep (n + 1) (s.drop (i + sep.length))

end Spec
end TlxVerif.C19

namespace TlxVerif.C19
open TlxVerif.C18 (Bytes npos)
namespace Spec

/-! ### Levenshtein distance: the defining recurrence over prefix lengths
(`lev_{a,b}(i, j)`: distance between the first `i` bytes of `a` and the first `j` bytes of `b`;
unit costs, characters compared by `eq`) -/

def levD (eq : UInt8 → UInt8 → Bool) (a b : Bytes) : Nat → Nat → Nat
  | 0, j => j
  | i + 1, 0 => i + 1
  | i + 1, j + 1 =>
    min (min (levD eq a b i (j + 1) + 1) (levD eq a b (i + 1) j + 1))
      (levD eq a b i j + (if eq (a.getD i 0) (b.getD j 0) then 0 else 1))
termination_by i j => (i, j)

def lev (eq : UInt8 → UInt8 → Bool) (a b : Bytes) : Nat := levD eq a b a.length b.length

/-- the textbook *head* recursion: compare the first characters, recurse on the tails -/
def levFront (eq : UInt8 → UInt8 → Bool) : Bytes → Bytes → Nat
  | [], b => b.length
  | a, [] => a.length
  | x :: a, y :: b =>
    min (min (levFront eq a (y :: b) + 1) (levFront eq (x :: a) b + 1))
      (levFront eq a b + (if eq x y then 0 else 1))
termination_by a b => a.length + b.length

end Spec
end TlxVerif.C19
