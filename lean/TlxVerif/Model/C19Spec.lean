/-
C19 — direct definitions (specifications) the theorems of Props/C19.lean compare the
transliterated models with.
-/
import TlxVerif.Model.C18Spec
namespace TlxVerif.C19
open TlxVerif.C18 (Bytes npos)
namespace Spec

/-! ### RFC 4648 -/

/-- RFC 4648 table 1, "The Base 64 Alphabet" -/
def alphabet : List UInt8 :=
  "ABCDEFGHIJKLMNOPQRSTUVWXYZabcdefghijklmnopqrstuvwxyz0123456789+/".toList.map fun c => UInt8.ofNat c.toNat

def b64char (n : Nat) : UInt8 := alphabet.getD n 0

/-- RFC 4648 §4: 24-bit groups as four 6-bit indices, `=` padding for a final group of 8 or 16 bits -/
def base64 : Bytes → Bytes
  | [] => []
  | [a] => [b64char (a.toNat / 4), b64char (a.toNat % 4 * 16), 61, 61]
  | [a, b] => [b64char (a.toNat / 4), b64char (a.toNat % 4 * 16 + b.toNat / 16), b64char (b.toNat % 16 * 4), 61]
  | a :: b :: c :: rest =>
    b64char (a.toNat / 4) :: b64char (a.toNat % 4 * 16 + b.toNat / 16) ::
    b64char (b.toNat % 16 * 4 + c.toNat / 64) :: b64char (c.toNat % 64) :: base64 rest

/-- RFC 4648 §8 (base 16): digit `n < 16` in upper / lower case -/
def hexDigitUC (n : Nat) : UInt8 := UInt8.ofNat (if n < 10 then 48 + n else 55 + n)
def hexDigitLC (n : Nat) : UInt8 := UInt8.ofNat (if n < 10 then 48 + n else 87 + n)

def base16 (digit : Nat → UInt8) (s : Bytes) : Bytes :=
  s.flatMap fun b => [digit (b.toNat / 16), digit (b.toNat % 16)]

end Spec
end TlxVerif.C19
