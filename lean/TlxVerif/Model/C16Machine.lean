import TlxVerif.Model.C16RingBuffer
/-!
Operation language of the C16 RingBuffer harness as a typed machine: a list of
registers each holding an optional RingBuffer object, and one step function per
operation line.  The driver parses a protocol line into an `Op` and calls
`stepOp`; the refinement theorem (Props/C16) is about this same function.
-/
namespace TlxVerif.C16

inductive Op
  | new (r max : Nat)
  | pushB (r : Nat) (v : Elem)
  | pushF (r : Nat) (v : Elem)
  | popF (r : Nat)
  | popB (r : Nat)
  | clear (r : Nat)
  | front (r : Nat)
  | back (r : Nat)
  | at (r i : Nat)
  | size (r : Nat)
  | empty (r : Nat)
  | copyTo (r : Nat)
  | moveTo (r : Nat)
  | alloc (r max : Nat)
  | dealloc (r : Nat)
  | copyCtor (r s : Nat)
  | moveCtor (r s : Nat)
  | assign (r s : Nat)
  | moveAssign (r s : Nat)
  | dtor (r : Nat)
  deriving Repr, DecidableEq

inductive Out
  | ok
  | val (v : Option Elem)
  | num (n : Nat)
  | bool (b : Bool)
  | list (l : List Elem)
  | leak (n : Nat)
  deriving Repr, DecidableEq

abbrev Regs := List (Option RB)

/-- register `i` holds an object -/
def getObj (rs : Regs) (i : Nat) : Option RB := (rs[i]?).join
/-- register `i` exists and holds no object -/
def isFree (rs : Regs) (i : Nat) : Bool := rs[i]? == some none

/-- One operation.  `none` = the model cannot execute it: the register does not
exist / holds no object / already holds one, or an element lifetime rule was
broken (construct over a live object, destroy of raw storage, read of a dead slot). -/
def stepOp (rs : Regs) : Op → Option (Regs × Out)
  | .new r max => if isFree rs r then some (rs.set r (some (RB.new max)), .ok) else none
  | .pushB r v => do let x ← getObj rs r; let x' ← x.pushBack v; pure (rs.set r (some x'), .ok)
  | .pushF r v => do let x ← getObj rs r; let x' ← x.pushFront v; pure (rs.set r (some x'), .ok)
  | .popF r => do let x ← getObj rs r; let x' ← x.popFront; pure (rs.set r (some x'), .ok)
  | .popB r => do let x ← getObj rs r; let x' ← x.popBack; pure (rs.set r (some x'), .ok)
  | .clear r => do let x ← getObj rs r; let x' ← x.clear; pure (rs.set r (some x'), .ok)
  | .front r => do let x ← getObj rs r; pure (rs, .val x.front?)
  | .back r => do let x ← getObj rs r; pure (rs, .val x.back?)
  | .at r i => do let x ← getObj rs r; pure (rs, .val (x.at? i))
  | .size r => do let x ← getObj rs r; pure (rs, .num x.size)
  | .empty r => do let x ← getObj rs r; pure (rs, .bool x.empty)
  | .copyTo r => do let x ← getObj rs r; let l ← x.toList?; pure (rs, .list l)
  | .moveTo r => do
      let x ← getObj rs r; let l ← x.toList?; let x' ← x.clear
      pure (rs.set r (some x'), .list l)
  | .alloc r max => do let x ← getObj rs r; pure (rs.set r (some (x.allocate max)), .ok)
  | .dealloc r => do let x ← getObj rs r; let x' ← x.deallocate; pure (rs.set r (some x'), .ok)
  | .copyCtor r s => do
      if !isFree rs r then none
      let x ← getObj rs s; let y ← x.copyCtor
      pure (rs.set r (some y), .ok)
  | .moveCtor r s => do
      if !isFree rs r then none
      let x ← getObj rs s
      let (y, x') := x.moveCtor
      pure ((rs.set r (some y)).set s (some x'), .ok)
  | .assign r s => do
      let x ← getObj rs s; let d ← getObj rs r
      if s = r then pure (rs, .ok) else
      let y ← d.copyAssign x
      pure (rs.set r (some y), .ok)
  | .moveAssign r s => do
      let x ← getObj rs s; let d ← getObj rs r
      if s = r then pure (rs, .ok) else
      let (y, x') ← d.moveAssign x
      pure ((rs.set r (some y)).set s (some x'), .ok)
  | .dtor r => do
      let x ← getObj rs r
      let n ← x.dtor
      pure (rs.set r none, if n = 0 then .ok else .leak n)

/-! ### Abstract machine: bounded deques -/

/-- abstract object: a buffer without storage, or a bounded deque -/
inductive AObj
  | shell (max : Nat)
  | buf (max : Nat) (xs : List Elem)
  deriving Repr, DecidableEq

abbrev ARegs := List (Option AObj)

def agetObj (as : ARegs) (i : Nat) : Option AObj := (as[i]?).join
def aisFree (as : ARegs) (i : Nat) : Bool := as[i]? == some none

/-- The bounded-deque specification, with the documented preconditions: `none`
when the operation is not permitted (capacity exceeded, pop/front/back of an
empty deque, index out of range, no storage, wrong register state, size
argument ≥ 2^63). -/
def specStep (as : ARegs) : Op → Option (ARegs × Out)
  | .new r max => if aisFree as r ∧ max < 2 ^ 63 then some (as.set r (some (.buf max [])), .ok) else none
  | .pushB r v => match agetObj as r with
      | some (.buf m xs) => if xs.length < m then some (as.set r (some (.buf m (xs ++ [v]))), .ok) else none
      | _ => none
  | .pushF r v => match agetObj as r with
      | some (.buf m xs) => if xs.length < m then some (as.set r (some (.buf m (v :: xs))), .ok) else none
      | _ => none
  | .popF r => match agetObj as r with
      | some (.buf m (_ :: xs)) => some (as.set r (some (.buf m xs)), .ok)
      | _ => none
  | .popB r => match agetObj as r with
      | some (.buf m xs) => if xs ≠ [] then some (as.set r (some (.buf m xs.dropLast)), .ok) else none
      | _ => none
  | .clear r => match agetObj as r with
      | some (.buf m _) => some (as.set r (some (.buf m [])), .ok)
      | some (.shell m) => some (as.set r (some (.shell m)), .ok)
      | none => none
  | .front r => match agetObj as r with
      | some (.buf _ (x :: _)) => some (as, .val (some x))
      | _ => none
  | .back r => match agetObj as r with
      | some (.buf _ xs) => if xs ≠ [] then some (as, .val xs.getLast?) else none
      | _ => none
  | .at r i => match agetObj as r with
      | some (.buf _ xs) => if i < xs.length then some (as, .val xs[i]?) else none
      | _ => none
  | .size r => match agetObj as r with
      | some (.buf _ xs) => some (as, .num xs.length)
      | some (.shell _) => some (as, .num 0)
      | none => none
  | .empty r => match agetObj as r with
      | some (.buf _ xs) => some (as, .bool xs.isEmpty)
      | some (.shell _) => some (as, .bool true)
      | none => none
  | .copyTo r => match agetObj as r with
      | some (.buf _ xs) => some (as, .list xs)
      | some (.shell _) => some (as, .list [])
      | none => none
  | .moveTo r => match agetObj as r with
      | some (.buf m xs) => some (as.set r (some (.buf m [])), .list xs)
      | some (.shell m) => some (as.set r (some (.shell m)), .list [])
      | none => none
  | .alloc r max => match agetObj as r with
      | some (.shell _) => if max < 2 ^ 63 then some (as.set r (some (.buf max [])), .ok) else none
      | _ => none
  | .dealloc r => match agetObj as r with
      | some (.buf m _) => some (as.set r (some (.shell m)), .ok)
      | some (.shell m) => some (as.set r (some (.shell m)), .ok)
      | none => none
  | .copyCtor r s => match agetObj as s with
      | some (.buf m xs) => if aisFree as r then some (as.set r (some (.buf m xs)), .ok) else none
      | _ => none
  | .moveCtor r s => match agetObj as s with
      | some (.buf m xs) =>
          if aisFree as r then some ((as.set r (some (.buf m xs))).set s (some (.shell m)), .ok) else none
      | some (.shell m) =>
          if aisFree as r then some ((as.set r (some (.shell m))).set s (some (.shell m)), .ok) else none
      | none => none
  | .assign r s => match agetObj as s, agetObj as r with
      | some (.buf m xs), some _ => if s = r then some (as, .ok) else some (as.set r (some (.buf m xs)), .ok)
      | _, _ => none
  | .moveAssign r s => match agetObj as s, agetObj as r with
      | some (.buf m xs), some _ =>
          if s = r then some (as, .ok) else some ((as.set r (some (.buf m xs))).set s (some (.shell m)), .ok)
      | some (.shell m), some _ =>
          if s = r then some (as, .ok) else some ((as.set r (some (.shell m))).set s (some (.shell m)), .ok)
      | _, _ => none
  | .dtor r => match agetObj as r with
      | some _ => some (as.set r none, .ok)
      | none => none

end TlxVerif.C16
