/-
C19 — executable model of the small string helpers: replace.cpp, trim.cpp,
starts_with.cpp, ends_with.cpp, contains.cpp, to_lower.cpp, to_upper.cpp,
compare_icase.cpp, equal_icase.cpp, less_icase.cpp, erase_all.cpp, pad.cpp and
levenshtein.hpp.

Calls into `std::string` members (`find`, `find_first_not_of`, `find_last_not_of`,
`find_last_of`, `erase`, `replace`) are modelled by the standard's definitions
(`C18.Spec.*`, the same wording as for `std::string_view`); calls into
`tlx::StringView` members use the C18 *model* of that class.
-/
import TlxVerif.Model.C18Spec
import TlxVerif.Model.C18StringView
namespace TlxVerif.C19
open TlxVerif.C18 (Bytes npos)
open TlxVerif.C18

/-! ### std::string pieces -/

/-- `std::string::erase(pos, n)` for `pos ≤ size()` -/
def strErase (s : Bytes) (pos n : Nat) : Bytes := s.take pos ++ s.drop (pos + n)
/-- `std::string::replace(pos, n, instead)` -/
def strReplace (s : Bytes) (pos n : Nat) (instead : Bytes) : Bytes := s.take pos ++ instead ++ s.drop (pos + n)

/-! ### replace_first / replace_all -/

/-- `std::string::find(needle, pos)` as an option, `none` = `npos`.  (A std::string is shorter
than `npos`, so `npos` is never a position; `C18.Spec.find` is `(strFind …).getD npos`.) -/
def strFind (s needle : Bytes) (pos : Nat) : Option Nat :=
  Spec.least (fun x => decide (pos ≤ x) && Spec.matchAt s needle x) (s.length + 1)

/-- `replace_first(str, needle, instead)` (in-place and copy versions share the code) -/
def replaceFirst (s needle instead : Bytes) : Bytes :=
  match strFind s needle 0 with
  | some firstpos => strReplace s firstpos needle.length instead
  | none => s

/-- the `while ((thispos = str.find(needle, lastpos)) != npos)` loop; `fuel` bounds the
iterations (each one consumes at least one byte of the not yet scanned text when the
needle is not empty) -/
def replaceAllLoop (needle instead : Bytes) : Nat → Bytes → Nat → Bytes
  | 0, s, _ => s
  | fuel + 1, s, lastpos =>
    match strFind s needle lastpos with
    | some thispos =>
      replaceAllLoop needle instead fuel (strReplace s thispos needle.length instead) (thispos + instead.length)
    | none => s

/-- `replace_all(str, needle, instead)` -/
def replaceAll (s needle instead : Bytes) : Bytes := replaceAllLoop needle instead (s.length + 1) s 0

/-! ### trim family: three API shapes each -/

/-- `trim(std::string* str, drop)` -/
def trimString (s drop : Bytes) : Bytes :=
  let pos := Spec.findLastNotOf s drop npos
  if pos ≠ npos then
    let s := s.take (pos + 1)                       -- str->erase(pos + 1)
    let pos := Spec.findFirstNotOf s drop 0
    if pos ≠ npos then s.drop pos else s            -- str->erase(0, pos)
  else []

/-- `trim(tlx::string_view* str, drop)` -/
def trimViewPtr (s drop : Bytes) : Bytes :=
  let pos := Model.findLastNotOf s drop npos
  if pos = npos then []
  else
    let s := (Model.removeSuffix s (s.length - pos - 1)).2
    let pos := Model.findFirstNotOf s drop 0
    if pos ≠ npos then (Model.removePrefix s pos).2 else []

/-- `trim(tlx::string_view str, drop)` -/
def trimView (s drop : Bytes) : Bytes :=
  let pos := Model.findFirstNotOf s drop 0
  if pos = npos then []
  else
    let out := (Model.removePrefix s pos).2
    let pos := Model.findLastNotOf out drop out.length
    if pos ≠ npos then (Model.removeSuffix out (out.length - pos - 1)).2 else out

/-- `trim_right(std::string* str, drop)`: `erase(find_last_not_of(…) + 1, npos)`, the `+ 1` wraps -/
def trimRightString (s drop : Bytes) : Bytes :=
  s.take (Model.wadd (Spec.findLastNotOf s drop npos) 1)

/-- `trim_right(tlx::string_view* str, drop)` -/
def trimRightViewPtr (s drop : Bytes) : Bytes :=
  let pos := Model.findLastNotOf s drop npos
  if pos ≠ npos then (Model.removeSuffix s (s.length - pos - 1)).2 else []

/-- `trim_right(tlx::string_view str, drop)` -/
def trimRightView (s drop : Bytes) : Bytes :=
  let pos := Model.findLastNotOf s drop npos
  if pos = npos then []
  else match Model.substr s 0 (pos + 1) with
    | some r => r.2
    | none => []          -- substr(0, …) cannot throw

/-- `trim_left(std::string* str, drop)`: `erase(0, find_first_not_of(…))` -/
def trimLeftString (s drop : Bytes) : Bytes := strErase s 0 (Spec.findFirstNotOf s drop 0)

/-- `trim_left(tlx::string_view* str, drop)` -/
def trimLeftViewPtr (s drop : Bytes) : Bytes :=
  let pos := Model.findFirstNotOf s drop 0
  if pos ≠ npos then (Model.removePrefix s pos).2 else []

/-- `trim_left(tlx::string_view str, drop)` -/
def trimLeftView (s drop : Bytes) : Bytes :=
  let pos := Model.findFirstNotOf s drop 0
  if pos = npos then []
  else match Model.substr s pos npos with
    | some r => r.2
    | none => []          -- pos < size(): cannot throw

/-! ### case conversion -/

/-- value of a plain (signed) `char` after integral promotion -/
def charToInt (c : UInt8) : Int := if c.toNat < 128 then c.toNat else (c.toNat : Int) - 256

/-- `to_lower(char ch)`: `if (static_cast<unsigned>(ch - 'A') < 26U) ch = ch - 'A' + 'a'` -/
def toLower (c : UInt8) : UInt8 :=
  if ((charToInt c - 65) % 4294967296) < 26 then c - 65 + 97 else c

/-- `to_upper(char ch)` -/
def toUpper (c : UInt8) : UInt8 :=
  if ((charToInt c - 97) % 4294967296) < 26 then c - 97 + 65 else c

def toLowerStr (s : Bytes) : Bytes := s.map toLower
def toUpperStr (s : Bytes) : Bytes := s.map toUpper

/-! ### starts_with / ends_with / contains -/

/-- `std::equal(first1, last1, first2, pred)` -/
def stdEqualBy (p : UInt8 → UInt8 → Bool) : Bytes → Bytes → Bool
  | [], _ => true
  | _ :: _, [] => false
  | x :: xs, y :: ys => p x y && stdEqualBy p xs ys

def icaseEq (a b : UInt8) : Bool := toLower a == toLower b

def startsWith (str m : Bytes) : Bool :=
  if m.length > str.length then false else Model.stdEqual m str
def startsWithIcase (str m : Bytes) : Bool :=
  if m.length > str.length then false else stdEqualBy icaseEq m str
def endsWith (str m : Bytes) : Bool :=
  if m.length > str.length then false else Model.stdEqual m (str.drop (str.length - m.length))
def endsWithIcase (str m : Bytes) : Bool :=
  if m.length > str.length then false else stdEqualBy icaseEq m (str.drop (str.length - m.length))

/-- `contains(str, pattern)`: `str.find(pattern) != npos` on the tlx view -/
def contains (str pattern : Bytes) : Bool := Model.find str pattern 0 != npos

/-! ### compare_icase / equal_icase / less_icase -/

/-- the two-cursor loop shared by the four `compare_icase` overloads (a `const char*`
argument contributes the bytes before its NUL) -/
def compareIcase : Bytes → Bytes → Int
  | a :: as, b :: bs =>
    let ca := toLower a
    let cb := toLower b
    if ca == cb then compareIcase as bs
    else if ca < cb then -1 else 1
  | [], _ :: _ => -1
  | _ :: _, [] => 1
  | [], [] => 0

/-- the loop of the three `equal_icase` overloads that take a `const char*` -/
def equalIcaseLoop : Bytes → Bytes → Bool
  | a :: as, b :: bs => if toLower a == toLower b then equalIcaseLoop as bs else false
  | [], [] => true
  | _, _ => false

/-- `equal_icase(string_view, string_view)` -/
def equalIcaseView (a b : Bytes) : Bool :=
  if a.length ≠ b.length then false else stdEqualBy icaseEq a b

/-- the loop of the three `less_icase` overloads that take a `const char*` -/
def lessIcaseLoop : Bytes → Bytes → Bool
  | a :: as, b :: bs => if toLower a == toLower b then lessIcaseLoop as bs else toLower a < toLower b
  | [], [] => false
  | [], _ :: _ => true
  | _ :: _, [] => false

/-- `less_icase(string_view, string_view)`: `std::lexicographical_compare` -/
def lessIcaseView (a b : Bytes) : Bool :=
  Model.lexCompare (fun x y => toLower x < toLower y) a b

/-! ### erase_all -/

/-- `erase_all(string_view str, drop)` (copy) -/
def eraseAllCopy (s drop : Bytes) : Bytes :=
  match s with
  | [] => []
  | c :: t => if drop.contains c then eraseAllCopy t drop else c :: eraseAllCopy t drop

/-- `erase_all(std::string* str, drop)` (in place, scanning from the back) -/
def eraseAllInplaceLoop (drop : Bytes) : Nat → Bytes → Nat → Bytes
  | 0, s, _ => s
  | fuel + 1, s, pos1 =>
    let p1 := Spec.findLastOf s drop pos1
    if p1 = npos then s
    else
      let p2 := Spec.findLastNotOf s drop p1
      if p2 = npos then strErase s 0 (Model.wsub p1 p2)        -- erase(0, pos1 - pos2), wraps to pos1 + 1
      else eraseAllInplaceLoop drop fuel (strErase s (p2 + 1) (p1 - p2)) p2

def eraseAllInplace (s drop : Bytes) : Bytes := eraseAllInplaceLoop drop (s.length + 1) s npos

/-! ### pad -/

/-- `pad(str, len, pad_char)`: `assign(str.data(), min(str.size(), len)); resize(len, pad_char)` -/
def pad (s : Bytes) (len : Nat) (c : UInt8) : Bytes :=
  let t := s.take (min s.length len)
  t ++ List.replicate (len - t.length) c

/-! ### levenshtein -/

/-- inner `for i` loop: `lastrow` from index `i-1`, `left` = `thisrow[i-1]` -/
def levRowLoop (eq : UInt8 → UInt8 → Bool) (bj : UInt8) : Bytes → List Nat → Nat → List Nat
  | ai :: as, diag :: up :: rest, left =>
    let v := min (min (left + 1) (up + 1)) (diag + (if eq ai bj then 0 else 1))
    v :: levRowLoop eq bj as (up :: rest) v
  | _, _, _ => []

/-- one iteration of the outer `for j` loop: the new `thisrow` -/
def levNextRow (eq : UInt8 → UInt8 → Bool) (a : Bytes) (lastrow : List Nat) (bj : UInt8) (j : Nat) : List Nat :=
  j :: levRowLoop eq bj a lastrow j

def levRows (eq : UInt8 → UInt8 → Bool) (a : Bytes) : Bytes → List Nat → Nat → List Nat
  | [], row, _ => row
  | bj :: bs, row, j => levRows eq a bs (levNextRow eq a row bj j) (j + 1)

/-- `levenshtein_algorithm<Param>(a, a_size, b, b_size)` with unit costs -/
def levenshteinAlg (eq : UInt8 → UInt8 → Bool) (a b : Bytes) : Nat :=
  if a.length = 0 then b.length
  else if b.length = 0 then a.length
  else
    let (a, b) := if a.length < b.length then (b, a) else (a, b)
    (levRows eq a b (List.range (a.length + 1)) 1).getLastD 0

def levenshtein (a b : Bytes) : Nat := levenshteinAlg (· == ·) a b
def levenshteinIcase (a b : Bytes) : Nat := levenshteinAlg icaseEq a b

end TlxVerif.C19
