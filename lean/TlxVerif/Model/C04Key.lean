/-
C04 model, part 1: strings and the 64-bit keys of the parallel sample sort
(tlx/sort/strings/string_set.hpp `get_uint64`, parallel_sample_sort.hpp
`lcpKeyType`, `lcpKeyDepth`, `getCharAtDepth`).

A string is a NUL-free byte list; the C string's terminator is the byte 0 read at
index `length`.  `getKey? s depth` is `get_key<uint64_t>(strset, s, depth)`: it
reads at most eight characters starting at `s + depth` and stops at the
terminator.  Reading at `depth > length` is outside the allocation: `none`.
-/
namespace TlxVerif.C04

abbrev Str := List UInt8
abbrev Key := BitVec 64

/-- the `k` most significant bytes still to be filled: transliteration of the unrolled
`if (is_end) return v; v |= uint64(*i) << (8*(k-1)); ++i;` chain of `get_uint64` -/
def getKeyAux : List UInt8 → Nat → Key → Key
  | [], _, v => v
  | _, 0, v => v
  | c :: cs, k + 1, v => getKeyAux cs k (v ||| ((c.toBitVec.setWidth 64) <<< (8 * k)))

def getKey? (s : Str) (depth : Nat) : Option Key :=
  if depth ≤ s.length then some (getKeyAux (s.drop depth) 8 0) else none

/-! Integer widths.  Where the C++ stores a value into a type narrower than `size_t` the model
applies the same truncation, so that a value that does not fit is visible in the model (and makes
the theorems fail) instead of being silently assumed away:
`unsigned char` / `std::uint8_t` (return type of `lcpKeyType` / `lcpKeyDepth`, `splitter_lcp[]`,
`MKQSStep::lcp_lt_/lcp_eq_/lcp_gt_`), `std::uint16_t` (bucket ids in `bktcache`),
`LcpType = std::uint32_t` (every `set_lcp` / `fill_lcp` of the public entry points). -/

/-- store into `unsigned char` / `std::uint8_t` -/
def u8 (n : Nat) : Nat := n % 256

/-- store into `std::uint16_t` -/
def u16 (n : Nat) : Nat := n % 65536

/-- store into `LcpType` (`std::uint32_t` for `sort_strings_parallel_lcp`) -/
def lcpT (n : Nat) : Nat := n % 4294967296

/-- `unsigned char lcpKeyType(a, b)`: `clz(a ^ b) / 8` -/
def lcpKeyType (a b : Key) : Nat := u8 ((a ^^^ b).clz.toNat / 8)

/-- `unsigned char lcpKeyDepth(a)`: `sizeof(KeyType) - ctz(a) / 8` -/
def lcpKeyDepth (a : Key) : Nat := u8 (8 - a.ctz.toNat / 8)

/-- `static_cast<unsigned char>(a >> (8 * (sizeof(KeyType) - 1 - d)))` -/
def getCharAtDepth (a : Key) (d : Nat) : UInt8 := ⟨(a >>> (8 * (7 - d))).setWidth 8⟩

/-- `pivot & 0xFF` / `mykey & 0xFF`: the last key byte (0 ⇒ the string ends inside the key) -/
def lowByte (a : Key) : Nat := (a &&& 0xFF#64).toNat

/-! 32-bit key type (`key_type = uint32_t` parameter sets): only the helper
functions are modelled, for the `keyfn` correspondence. -/
def lcpKeyType32 (a b : BitVec 32) : Nat := u8 ((a ^^^ b).clz.toNat / 8)
def lcpKeyDepth32 (a : BitVec 32) : Nat := u8 (4 - a.ctz.toNat / 8)
def getCharAtDepth32 (a : BitVec 32) (d : Nat) : UInt8 := ⟨(a >>> (8 * (3 - d))).setWidth 8⟩
def getKey32? (s : Str) (depth : Nat) : Option (BitVec 32) :=
  if depth ≤ s.length then some ((getKeyAux (s.drop depth |>.take 4) 8 0 >>> 32).setWidth 32) else none

/-! Reference notions used by the specification. -/

/-- unsigned-byte lexicographic `≤` -/
def strLe : Str → Str → Bool
  | [], _ => true
  | _ :: _, [] => false
  | a :: as, b :: bs => if a < b then true else if b < a then false else strLe as bs

/-- length of the longest common prefix -/
def lcp : Str → Str → Nat
  | a :: as, b :: bs => if a = b then lcp as bs + 1 else 0
  | _, _ => 0

def nulFree (s : Str) : Prop := ∀ c ∈ s, c ≠ 0

end TlxVerif.C04
