/-
C18 — "huge views": views of lengths around 2^31 / 2^32 into one sparse memory.

The harness maps ~6 GiB of zero pages and writes a few marker bytes; the memory is the
closed form `mem` below.  A view is `(off, len)`.  Its denotation is the byte list
`den v = [mem off, …, mem (off+len-1)]`, far too long to be built, so the queries are
answered by *windowed* evaluators that look at no more than `W` bytes and return `none`
when the answer is not decided inside the window (the harness evaluates the same contract
and answers `bad-op`).  Props/C18.lean proves that whenever the windowed `compare` answers,
it is the specification's `compare` of the denotations; the other evaluators are closed
forms validated against libstdc++ on the same lines (`s h…`).
-/
import TlxVerif.Model.C18Spec
namespace TlxVerif.C18
namespace Huge

def size : Nat := 4294967296 + 2147483648 + 4096
def W : Nat := 64

def marked (i : Nat) : Bool :=
  i < 16 || (2147483648 - 16 ≤ i && i < 2147483648 + 16) || (4294967296 - 16 ≤ i && i < 4294967296 + 16) ||
    (size - 16 ≤ i && i < size)

/-- the byte at address `i` of the mapping -/
def mem (i : Nat) : UInt8 := if marked i then UInt8.ofNat ((i * 37 + 11) % 255 + 1) else 0

structure View where
  off : Nat
  len : Nat

/-- the bytes a view denotes (never evaluated on huge views) -/
def den (v : View) : Bytes := (List.range v.len).map fun i => mem (v.off + i)

/-- first index `i < n` (scanning `fuel` positions from `i`) at which the two views differ -/
def firstDiff (a b : Nat) : Nat → Nat → Option Nat
  | _, 0 => none
  | i, fuel + 1 => if mem (a + i) != mem (b + i) then some i else firstDiff a b (i + 1) fuel

/-- windowed `compare`: `none` = not decided within the window.  After an equal common
prefix that was not scanned completely the length rule is used only when both views start
at the same address (the shorter one then *is* a prefix of the longer one). -/
def compare (v w : View) (expensive : Bool) : Option Int :=
  let n := min v.len w.len
  if n > 1048576 ∧ ¬ expensive then none      -- cost bound of the harness, not a semantic condition
  else
    match firstDiff v.off w.off 0 (min n W) with
    | some i => some (if mem (v.off + i) < mem (w.off + i) then -1 else 1)
    | none =>
      if n > W ∧ v.off ≠ w.off then none
      else some (if v.len < w.len then -1 else if v.len = w.len then 0 else 1)

/-- `substr(pos, n)`; inner `none` = `std::out_of_range` -/
def substr (v : View) (pos n : Nat) : Option View :=
  if pos > v.len then none else some ⟨v.off + pos, min n (v.len - pos)⟩

def bytesAt (v : View) (i k : Nat) : Bytes := (List.range k).map fun j => mem (v.off + i + j)

/-- result of a windowed scan -/
inductive Scan where
  | found (x : Nat)
  | notFound
  | outside
deriving Repr

/-- hit test of the three families at position `i`: 0 = occurrence of `set` as a needle,
1 = byte in `set`, 2 = byte not in `set` -/
def hit (v : View) (set : Bytes) (kind : Nat) (i : Nat) : Bool :=
  if kind = 0 then bytesAt v i set.length == set
  else (set.contains (mem (v.off + i))) == (kind == 1)

def scanUp (v : View) (set : Bytes) (kind : Nat) (last : Nat) : Nat → Nat → Option Nat
  | _, 0 => none
  | i, fuel + 1 => if i > last then none else if hit v set kind i then some i else scanUp v set kind last (i + 1) fuel

def scanFwd (v : View) (pos : Nat) (set : Bytes) (kind : Nat) : Scan :=
  let L := v.len
  let k := set.length
  if kind = 0 then
    if pos > L then .notFound
    else if k = 0 then .found pos
    else if L < k then .notFound
    else
      let last := L - k
      match scanUp v set kind last pos (W + 1) with
      | some x => .found x
      | none => if pos > last ∨ pos + W ≥ last then .notFound else .outside
  else
    if pos ≥ L then .notFound
    else if kind = 1 ∧ k = 0 then .notFound
    else
      match scanUp v set kind (L - 1) pos (W + 1) with
      | some x => .found x
      | none => if pos + W ≥ L - 1 then .notFound else .outside

def scanDown (v : View) (set : Bytes) (kind : Nat) (start : Nat) : Nat → Nat → Option Nat
  | _, 0 => none
  | d, fuel + 1 =>
    if d > start then none
    else if hit v set kind (start - d) then some (start - d) else scanDown v set kind start (d + 1) fuel

def scanBwd (v : View) (pos : Nat) (set : Bytes) (kind : Nat) : Scan :=
  let L := v.len
  let k := set.length
  if kind = 0 then
    if L < k then .notFound
    else
      let start := min pos (L - k)
      if k = 0 then .found start
      else match scanDown v set kind start 0 (W + 1) with
        | some x => .found x
        | none => if start ≤ W then .notFound else .outside
  else
    if L = 0 then .notFound
    else if kind = 1 ∧ k = 0 then .notFound
    else
      let start := min pos (L - 1)
      match scanDown v set kind start 0 (W + 1) with
      | some x => .found x
      | none => if start ≤ W then .notFound else .outside

end Huge
end TlxVerif.C18
