/-
Model of `tlx::SimpleVector<T, SimpleVectorMode::Normal>` (tlx/container/simple_vector.hpp).
`arr = none` ⇔ `array_ == nullptr`; otherwise `arr = some xs` where every entry of
`xs` is a live element object created by `new T[n]` (value-initialised: 0) and
destroyed by `delete[]`.  Every operation returns the new state together with
the numbers of element objects it constructs and destroys.
-/
import TlxVerif.Model.Drv
namespace TlxVerif.C16

structure SV where
  size : Nat := 0
  arr : Option (List Int) := none
  deriving Repr, DecidableEq, Inhabited

/-- (constructed, destroyed) element objects of one operation -/
abbrev Delta := Nat × Nat

def SV.live (v : SV) : Nat := match v.arr with | some xs => xs.length | none => 0

/-- `create_array(n)` = `new T[n]` -/
def createArray (n : Nat) : List Int := List.replicate n 0

def SV.new (n : Nat) : SV × Delta :=
  if n > 0 then ({ size := n, arr := some (createArray n) }, (n, 0)) else ({}, (0, 0))

/-- `std::move(tmp, tmp + k, array_)`: move-assign the first `k` elements -/
def moveInto (src dst : List Int) (k : Nat) : List Int := src.take k ++ dst.drop k

def SV.resize (v : SV) (n : Nat) : SV × Delta :=
  match v.arr with
  | some old =>
      let fresh := createArray n
      ({ size := n, arr := some (moveInto old fresh (min v.size n)) }, (n, old.length))
  | none => ({ size := n, arr := some (createArray n) }, (n, 0))

/-- `new T[n]` in which the `k`-th element construction throws (`1 ≤ k ≤ n`): the `k-1`
objects already constructed are destroyed again by the array-new unwinding and the exception
propagates before `array_`/`size_` are assigned.  `none` = no throw (`k = 0` or `k > n`). -/
def createArrayThrows (n k : Nat) : Option Delta :=
  if 1 ≤ k ∧ k ≤ n then some (k - 1, k - 1) else none

/-- `SimpleVector(n)` whose `k`-th element construction throws: no object comes into being
(the harness then default-constructs an empty vector in the register) -/
def SV.newThrow (n k : Nat) : SV × Delta × Bool :=
  match (if n > 0 then createArrayThrows n k else none) with
  | some d => ({}, d, true)
  | none => ((SV.new n).1, (SV.new n).2, false)

/-- `resize(n)` whose `k`-th element construction throws: both branches call `create_array`
before they modify a member, so the vector is unchanged -/
def SV.resizeThrow (v : SV) (n k : Nat) : SV × Delta × Bool :=
  match createArrayThrows n k with
  | some d => (v, d, true)
  | none => ((v.resize n).1, (v.resize n).2, false)

def SV.destroy (v : SV) : SV × Delta := ({}, (0, v.live))
def SV.dtor (v : SV) : Delta := (0, v.live)
def SV.fill (v : SV) (x : Int) : SV := { v with arr := v.arr.map fun xs => xs.map fun _ => x }
def SV.set (v : SV) (i : Nat) (x : Int) : SV := { v with arr := v.arr.map fun xs => xs.set i x }
def SV.get? (v : SV) (i : Nat) : Option Int := v.arr.bind fun xs => xs[i]?
/-- move constructor: (new, moved-from) -/
def SV.moveCtor (v : SV) : SV × SV := (v, {})
/-- move assignment (distinct objects): (dst', src', delta) -/
def SV.moveAssign (dst src : SV) : SV × SV × Delta := (src, {}, (0, dst.live))

def dumpSV : Option SV → String
  | none => "-"
  | some v => match v.arr with
    | none => s!"size={v.size} null"
    | some xs => s!"size={v.size} [{",".intercalate (xs.map toString)}]"

def stepSV (regs : List (Option SV)) (ts : List String) : Option (List (Option SV) × String) :=
  let get (i : Nat) : Option SV := (regs[i]?).join
  let fin (regs' : List (Option SV)) (ret : String) (d : Delta) : Option (List (Option SV) × String) :=
    some (regs', s!"{ret} +{d.1} -{d.2} ; {" ; ".intercalate (regs'.map dumpSV)}")
  match ts with
  | ["new", r, n] => do
      let r ← r.toNat?; let n ← n.toNat?
      let (v, d) := SV.new n
      fin (regs.set r (some v)) "ok" d
  | ["resize", r, n] => do
      let r ← r.toNat?; let n ← n.toNat?; let v ← get r
      let (v', d) := v.resize n
      fin (regs.set r (some v')) "ok" d
  | ["tnew", r, n, k] => do
      let r ← r.toNat?; let n ← n.toNat?; let k ← k.toNat?
      let (v, d, threw) := SV.newThrow n k
      fin (regs.set r (some v)) (if threw then "threw" else "ok") d
  | ["tresize", r, n, k] => do
      let r ← r.toNat?; let n ← n.toNat?; let k ← k.toNat?; let v ← get r
      let (v', d, threw) := v.resizeThrow n k
      fin (regs.set r (some v')) (if threw then "threw" else "ok") d
  | ["destroy", r] => do
      let r ← r.toNat?; let v ← get r
      let (v', d) := v.destroy
      fin (regs.set r (some v')) "ok" d
  | ["dtor", r] => do
      let r ← r.toNat?; let v ← get r
      fin (regs.set r none) "ok" v.dtor
  | ["fill", r, x] => do
      let r ← r.toNat?; let x ← x.toInt?; let v ← get r
      fin (regs.set r (some (v.fill x))) "ok" (0, 0)
  | ["set", r, i, x] => do
      let r ← r.toNat?; let i ← i.toNat?; let x ← x.toInt?; let v ← get r
      fin (regs.set r (some (v.set i x))) "ok" (0, 0)
  | ["get", r, i] => do
      let r ← r.toNat?; let i ← i.toNat?; let v ← get r
      fin regs (match v.get? i with | some x => toString x | none => "!") (0, 0)
  | ["size", r] => do
      let r ← r.toNat?; let v ← get r
      fin regs (toString v.size) (0, 0)
  | ["swap", r, s] => do
      let r ← r.toNat?; let s ← s.toNat?; let a ← get r; let b ← get s
      fin ((regs.set r (some b)).set s (some a)) "ok" (0, 0)
  | ["movector", r, s] => do
      let r ← r.toNat?; let s ← s.toNat?; let b ← get s
      let (n, b') := b.moveCtor
      fin ((regs.set r (some n)).set s (some b')) "ok" (0, 0)
  | ["massign", r, s] => do
      let r ← r.toNat?; let s ← s.toNat?; let a ← get r; let b ← get s
      if r = s then fin regs "ok" (0, 0) else
      let (a', b', d) := a.moveAssign b
      fin ((regs.set r (some a')).set s (some b')) "ok" d
  | _ => none

end TlxVerif.C16
