/-
C03 — the out-of-place radix sorts once more, now *with* the two string arrays and the `flipped`
flag of `StringShadowPtr` / `StringShadowLcpPtr` (string_ptr.hpp): `flip`, `copy_back`, the
distribution from the active into the shadow array, sub-sorters that work in the original array.
`Proofs/C03Two.lean` shows that this model computes exactly what the list model of
`Model/C03Radix.lean` computes, so the theorems about the latter hold for it.
-/
import TlxVerif.Model.C03Radix
namespace TlxVerif.C03

variable {α : Type} (str : α → Str)

/-- the caller's array and the temporary shadow array (same size) -/
structure Two (α : Type) where
  orig : Array α
  shad : Array α

/-- `active()` of a pointer with the given `flipped` flag -/
def Two.active (t : Two α) (flipped : Bool) : Array α := if flipped then t.shad else t.orig
/-- `shadow()` of a pointer with the given `flipped` flag -/
def Two.shadow (t : Two α) (flipped : Bool) : Array α := if flipped then t.orig else t.shad
def Two.setShadow (t : Two α) (flipped : Bool) (a : Array α) : Two α :=
  if flipped then { t with orig := a } else { t with shad := a }

/-- the strings at positions `off … off+size-1` -/
def slice (a : Array α) (off size : Nat) : List α := (a.toList.drop off).take size

/-- array implementation of `slice` for the compiled driver (proved equal, `@[csimp]`) -/
def sliceFast (a : Array α) (off size : Nat) : List α := (a.extract off (off + size)).toList

@[csimp] theorem slice_eq_fast : @slice = @sliceFast := by
  funext α a off size
  simp [slice, sliceFast, Array.toList_extract, List.extract_eq_take_drop]

/-- store `vals` at positions `off, off+1, …` -/
def blit (a : Array α) (off : Nat) : List α → Array α
  | [] => a
  | x :: rest => blit (a.setIfInBounds off x) (off + 1) rest

/-- `setShadow flipped (blit (shadow flipped) off vals)` without keeping a second reference to the
array that is written (so that the compiled code updates it in place) -/
def Two.blitShadow (t : Two α) (flipped : Bool) (off : Nat) (vals : List α) : Two α :=
  match t, flipped with
  | ⟨o, s⟩, true => ⟨blit o off vals, s⟩
  | ⟨o, s⟩, false => ⟨o, blit s off vals⟩

/-- `{ t with orig := blit t.orig off vals }`, in place -/
def Two.blitOrig (t : Two α) (off : Nat) (vals : List α) : Two α :=
  match t with
  | ⟨o, s⟩ => ⟨blit o off vals, s⟩

theorem Two.blitOrig_eq (t : Two α) (off : Nat) (vals : List α) :
    t.blitOrig off vals = { t with orig := blit t.orig off vals } := by cases t; rfl

theorem Two.blitShadow_eq (t : Two α) (flipped : Bool) (off : Nat) (vals : List α) :
    t.blitShadow flipped off vals = t.setShadow flipped (blit (t.shadow flipped) off vals) := by
  cases t; cases flipped <;> rfl

/-- `copy_back()` (string_ptr.hpp:258-265): a flipped range is moved into the original array -/
def copyBack (t : Two α) (off size : Nat) (flipped : Bool) : Two α :=
  if flipped then t.blitOrig off (slice t.shad off size) else t

/-- a sub-sorter working on a range of the original array -/
def sortInOrig (srt : List α → List Nat → List α × List Nat) (t : Two α) (off size : Nat) (v : List Nat) :
    Two α × List Nat :=
  let r := srt (slice t.orig off size) v
  (t.blitOrig off r.1, r.2)

/-- the loop over the buckets of one step: `handler idx t pos size view` -/
def walk (handler : Nat → Two α → Nat → Nat → List Nat → Two α × List Nat) :
    Nat → Nat → List Nat → List (List Nat) → Two α → Two α × List Nat
  | idx, pos, s :: sizes, v :: views, t =>
    let r := handler idx t pos s v
    let r2 := walk handler (idx + 1) (pos + s) sizes views r.1
    (r2.1, r.2 ++ r2.2)
  | _, _, _, _, t => (t, [])

/-- a `RadixStep_CE*` constructor and the processing of its buckets: distribute the active range
into the shadow range, store the LCPs, handle every bucket at its `flip`ped sub-range -/
def stepTwo (R : Nat) (key : α → Nat) (lcpStore : List Nat → List Nat → List Nat)
    (handler : Nat → Two α → Nat → Nat → List Nat → Two α × List Nat)
    (t : Two α) (off size : Nat) (flipped : Bool) (l : List Nat) : Two α × List Nat :=
  let sc := scatter R key (slice (t.active flipped) off size)
  let sizes := sc.2.toList
  let t1 := t.blitShadow flipped off sc.1.toList
  walk handler 0 off sizes (splitBy sizes (lcpStore sizes l)) t1

/-- `radixsort_CE0_loop` / `radixsort_CE2_loop` on the two arrays; the range is
`strptr = (off, size, flipped)` -/
def ce8Two (c : Consts) (withLcp : Bool) (step : Nat) :
    Nat → Two α → Nat → Nat → Bool → List Nat → Nat → Nat → Nat → Two α × List Nat
  | 0, t, _, _, _, l, _, _, _ => (t, l)
  | fuel + 1, t, off, size, flipped, l, depth, level, memory =>
    stepTwo 256 (fun x => key8 (str x) depth)
      (fun sizes l => if withLcp then stepLcp8 sizes size depth l else l)
      (fun idx t pos s v =>
        if idx = 0 then (copyBack t pos s (!flipped), v)     -- strptr.flip(0, pos).copy_back()
        else if s = 0 then (t, v)
        else if s < inssortThreshold then
          sortInOrig (insertionSort str withLcp (depth + 1)) (copyBack t pos s (!flipped)) pos s v
        else if memory ≠ 0 ∧ memory < step * (level + 1) then
          sortInOrig (fun b v => multikeyQuicksort str c withLcp (depth + 1) b v (wsub memory (step * level)))
            (copyBack t pos s (!flipped)) pos s v
        else ce8Two c withLcp step fuel t pos s (!flipped) v (depth + 1) (level + 1) memory)
      t off size flipped l

/-- `radixsort_CE3_loop` on the two arrays -/
def ce3Two (c : Consts) (withLcp : Bool) :
    Nat → Two α → Nat → Nat → Bool → List Nat → Nat → Nat → Nat → Two α × List Nat
  | 0, t, _, _, _, l, _, _, _ => (t, l)
  | fuel + 1, t, off, size, flipped, l, depth, level, memory =>
    stepTwo 65536 (fun x => key16 (str x) depth)
      (fun sizes l => if withLcp then stepLcp16 sizes depth l else l)
      (fun idx t pos s v =>
        if idx = 0 then (copyBack t pos s (!flipped), v)
        else if s = 0 then (t, v)
        else if idx &&& 0xFF = 0 then
          (copyBack t pos s (!flipped), if withLcp then setRange v 1 s (depth + 1) else v)
        else if s < inssortThreshold then
          sortInOrig (insertionSort str withLcp (depth + 2)) (copyBack t pos s (!flipped)) pos s v
        else if s < 65536 then
          ce8Two str c withLcp c.stepCE2 (radixFuel str (slice (t.active (!flipped)) pos s)) t pos s (!flipped) v
            (depth + 2) 1 (wsub memory (c.stepCE3 * level))
        else if memory ≠ 0 ∧ memory < c.stepCE3 * (level + 1) then
          sortInOrig (fun b v => multikeyQuicksort str c withLcp (depth + 2) b v (wsub memory (c.stepCE3 * level)))
            (copyBack t pos s (!flipped)) pos s v
        else ce3Two c withLcp fuel t pos s (!flipped) v (depth + 2) (level + 1) memory)
      t off size flipped l

/-- the adapters allocate the shadow array (`ss.allocate(ss.size())`, contents arbitrary — here a
copy) and start the loop unflipped on the whole range -/
def ce8TwoTop (c : Consts) (withLcp : Bool) (step : Nat) (depth : Nat) (ss : List α) (l : List Nat)
    (memory : Nat) : List α × List Nat :=
  let r := ce8Two str c withLcp step (radixFuel str ss) ⟨ss.toArray, ss.toArray⟩ 0 ss.length false l depth 1 memory
  (r.1.orig.toList, r.2)

def ce3TwoTop (c : Consts) (withLcp : Bool) (depth : Nat) (ss : List α) (l : List Nat)
    (memory : Nat) : List α × List Nat :=
  let r := ce3Two str c withLcp (radixFuel str ss) ⟨ss.toArray, ss.toArray⟩ 0 ss.length false l depth 1 memory
  (r.1.orig.toList, r.2)


/-! ### the adapters on top of the two-array loops (same tests as in `Model/C03Radix.lean`) -/

def radixsortCE0Two (c : Consts) (withLcp : Bool) (depth : Nat) (ss : List α) (l : List Nat)
    (memory : Nat) : List α × List Nat :=
  if ss.length < inssortThreshold then insertionSort str withLcp depth ss l
  else
    let memoryUse := 2 * 8 + c.szSet + ss.length * c.szStr
    let memorySlack := 3 * c.stepCE0
    if memory ≠ 0 ∧ memory < memoryUse + memorySlack + 1 then
      multikeyQuicksort str c withLcp depth ss l memory
    else ce8TwoTop str c withLcp c.stepCE0 depth ss l (wsub memory memoryUse)

def radixsortCE2Two (c : Consts) (withLcp : Bool) (depth : Nat) (ss : List α) (l : List Nat)
    (memory : Nat) : List α × List Nat :=
  if ss.length < inssortThreshold then insertionSort str withLcp depth ss l
  else
    let memoryUse := 2 * 8 + c.szSet + ss.length * 1 + ss.length * c.szStr
    let memorySlack := 3 * c.stepCE2
    if memory ≠ 0 ∧ memory < memoryUse + memorySlack + 1 then
      radixsortCI3 str c withLcp depth ss l memory
    else ce8TwoTop str c withLcp c.stepCE2 depth ss l (wsub memory memoryUse)

def radixsortCE3Two (c : Consts) (withLcp : Bool) (depth : Nat) (ss : List α) (l : List Nat)
    (memory : Nat) : List α × List Nat :=
  if ss.length < inssortThreshold then insertionSort str withLcp depth ss l
  else if ss.length < 65536 then radixsortCE2Two str c withLcp depth ss l memory
  else
    let memoryUse := 2 * 8 + c.szSet + ss.length * 2 + ss.length * c.szStr
    let memorySlack := 3 * c.stepCE3
    if memory ≠ 0 ∧ memory < memoryUse + memorySlack + 1 then
      radixsortCE2Two str c withLcp depth ss l memory
    else ce3TwoTop str c withLcp depth ss l (wsub memory memoryUse)

def sortStringsTwo (c : Consts) (withLcp : Bool) (ss : List α) (l : List Nat) (memory : Nat) :
    List α × List Nat :=
  radixsortCE3Two str c withLcp 0 ss l memory

end TlxVerif.C03
