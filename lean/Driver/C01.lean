import TlxVerif.Model.Drv
import TlxVerif.Model.C01Step
open TlxVerif TlxVerif.C01

/-- line-protocol driver of the B+ tree model (C01: observational equality with the std containers) -/
def main : IO Unit := Drv.loop ({} : St) step
