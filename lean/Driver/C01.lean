import TlxVerif.Model.Drv
import TlxVerif.Model.C01Step
import TlxVerif.Model.C01Trace
open TlxVerif TlxVerif.C01

/-- line-protocol driver of the B+ tree model (C01: observational equality with the std containers).
`drv trace`: every answer is followed by ` ;; ` and the branch labels of the erase case analysis the
operation took in the model (Model/C01Trace.lean); `drv labels`: only the labels (and the dump for `size r`) -/
def main (args : List String) : IO Unit :=
  if args.contains "trace" then Drv.loop ({} : St) stepTrace
  else if args.contains "labels" then Drv.loop ({} : St) stepLabels
  else Drv.loop ({} : St) step
