import TlxVerif.Model.Drv
import TlxVerif.Model.C06Pms
open TlxVerif TlxVerif.C06

def intCsv (s : String) : Option (List Int) :=
  if s = "-" then some [] else (s.splitOn ",").mapM String.toInt?

def showElems (l : List C07.Elem) : String :=
  if l.isEmpty then "-" else ",".intercalate (l.map fun e => s!"{e.key}:{e.pos}")

def parseCmp : String → Option C08.Cmp
  | "lt" => some .lt
  | "gt" => some .gt
  | "half" => some .half
  | _ => none

def insertIdx (x : C07.Elem) : List C07.Elem → List C07.Elem
  | [] => [x]
  | y :: ys => if y.pos < x.pos then y :: insertIdx x ys else x :: y :: ys

/-- canonical order inside runs of equivalent keys (unstable variant): by original index -/
partial def canon (lt : Int → Int → Bool) (l : List C07.Elem) : List C07.Elem :=
  match l with
  | [] => []
  | x :: _ =>
    let grp := l.takeWhile (fun y => !lt x.key y.key && !lt y.key x.key)
    let rest := l.drop grp.length
    grp.foldr insertIdx [] ++ canon lt rest

def showWinsN (ws : List (Nat × Nat)) : String :=
  let ws := ws.filter (fun w => w.2 > 0)
  if ws.isEmpty then "-" else ",".intercalate (ws.map fun (a, b) => s!"{a}+{b}")

def showWinsI (ws : List (Int × Int)) : String :=
  let ws := ws.filter (fun w => w.2 > 0)
  if ws.isEmpty then "-" else ",".intercalate (ws.map fun (a, b) => s!"{a}+{b}")

def stepOpt (ts : List String) : Option String :=
  match ts with
  | ["ms", variant, cmp, split, threads, osf, elem, keys] => do
    let cmp ← parseCmp cmp
    let threads ← threads.toNat?; let osf ← osf.toNat?
    let keys ← intCsv keys
    if !(["s", "u"].contains variant) || !(["exact", "sampling"].contains split) ||
       !(["pod", "log", "own", "deque", "deque64", "strided", "rev", "str"].contains elem) then none else
    if threads < 1 || threads > 64 || osf < 1 || osf > 64 then pure "bad-op" else
    -- std::string keys: zero-padded decimals of non-negative keys, comparators lt | gt only
    if elem == "str" && (cmp == .half || keys.any (· < 0)) then pure "bad-op" else
    let stable := variant == "s"
    let input : List C07.Elem := (List.range keys.length).map fun i => ⟨keys.getD i 0, 0, i⟩
    let P : Params := { lt := cmp.fn, stable := stable, exact := split == "exact", threads := threads, osf := osf }
    match pmsort P input with
    | .error e => pure s!"model-failure {e}"
    | .ok r =>
      let out := if stable then r.out else canon cmp.fn r.out
      -- run-time validation of the model against the specification it is proved about (stable sort)
      let spec := C07.kMerge cmp.fn [input]
      let okSpec := out == (if stable then spec else canon cmp.fn spec)
      let sp := if okSpec then 1 else 0
      -- the iterator category / container (deque, strided, reverse iterator) and the element representation
      -- (std::string) are outside the model: the model sorts the abstract sequence of (key, index) pairs
      if !(["log", "own"].contains elem) then pure s!"out {showElems out} cw - mw - live 0 spec {sp}"
      else
        let live : Int := (r.constructed : Int) - r.destroyed
        pure s!"out {showElems out} cw {showWinsN r.copyWindows} mw {showWinsN r.mergeWindows} live {live} spec {sp}"
  | _ => none

def step (_ : Unit) (ts : List String) : Unit × String :=
  match stepOpt ts with
  | some s => ((), s)
  | none => ((), "bad-op")

def main : IO Unit := Drv.loop () step
