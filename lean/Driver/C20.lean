import TlxVerif.Model.Drv
import TlxVerif.Model.C20Eval
import TlxVerif.Model.C20Agg
open TlxVerif TlxVerif.C20

/-! Line-protocol driver of the C20 model; see harness/c20.cpp for the protocol. -/

structure St where
  d : List Agg
  i : List Agg

def limD : Lim := ⟨(2 : Rat) ^ 1024 - (2 : Rat) ^ 971, -((2 : Rat) ^ 1024 - (2 : Rat) ^ 971)⟩
def limI : Lim := ⟨(2 : Rat) ^ 63 - 1, -((2 : Rat) ^ 63)⟩

def St.init : St := ⟨List.replicate 4 (Agg.empty limD), List.replicate 4 (Agg.empty limI)⟩

def typeOf : String → Option (Nat × Bool)
  | "u8" => some (8, false) | "i8" => some (8, true)
  | "u16" => some (16, false) | "i16" => some (16, true)
  | "u32" => some (32, false) | "i32" => some (32, true)
  | "u64" => some (64, false) | "i64" => some (64, true)
  | _ => none

def showR : R → String
  | .skip => "-"
  | .val v => toString v
  | .fuel => "FUEL"

def skipMark : UInt64 := 0x5bd1e995dead
def fold (h v : UInt64) : UInt64 := h * 6364136223846793005 + v + 1442695040888963407
def lowBits (v : Int) : UInt64 := UInt64.ofNat (v % (2 ^ 64 : Int)).toNat

structure Chk where
  n : Nat := 0
  skip : Nat := 0
  h : UInt64 := 0
  bad : Bool := false

def Chk.one (s : Chk) (fn : String) (w : Nat) (sg : Bool) (a b : Nat) : Chk :=
  match evalFn fn w sg a b with
  | some .skip => { s with skip := s.skip + 1, h := fold s.h skipMark }
  | some (.val v) => { s with n := s.n + 1, h := fold s.h (lowBits v) }
  | _ => { s with bad := true }

def Chk.show (s : Chk) : String :=
  if s.bad then "FUEL" else s!"n={s.n} skip={s.skip} h={s.h.toNat}"

/-- `for (x = lo;; x += step) { f x; if (hi - x < step) break; }` -/
partial def sweep {σ} (lo hi step : Nat) (f : σ → Nat → σ) (s : σ) : σ :=
  let s := f s lo
  if hi - lo < step then s else sweep (lo + step) hi step f s

def parseRat (s : String) : Option Rat :=
  match s.splitOn "/" with
  | [p] => p.toInt?.map (fun (z : Int) => (z : Rat))
  | [p, q] => do
      let p ← p.toInt?; let q ← q.toNat?
      if q = 0 then none else some ((p : Rat) / (q : Rat))
  | _ => none

def showRat (q : Rat) : String := if q.den = 1 then toString q.num else s!"{q.num}/{q.den}"

/-- the limits of the aggregated type are printed symbolically -/
def showLim (L : Lim) (q : Rat) : String :=
  if q = L.tmax then "TMAX" else if q = L.tlowest then "TLOWEST" else showRat q

def showAgg (L : Lim) : Option Agg → String
  | some a =>
    let v (d : Nat) := match a.variance d with | some q => showRat q | none => "nan"
    let sp := if a.count = 0 then "-" else showRat a.span
    s!"count={a.count} mean={showRat a.mean} nvar={showRat a.nvar} min={showLim L a.min} max={showLim L a.max} var0={v 0} var1={v 1} span={sp}"
  | none => "nan"

def reg (s : String) : Option Nat :=
  match s.toNat? with
  | some n => if n < 4 then some n else none
  | none => none

def stepAgg (L : Lim) (integral : Bool) (regs : List Agg) (ts : List String) : Option (List Agg × String) :=
  let fin (r : Nat) (o : Option Agg) : Option (List Agg × String) :=
    match o with
    | some a => some (regs.set r a, showAgg L (some a))
    | none => some (regs, "nan")
  match ts with
  | ["new", r] => do let r ← reg r; fin r (some (Agg.empty L))
  | ["get", r] => do let r ← reg r; fin r regs[r]?
  | ["add", r, v] => do
      let r ← reg r; let v ← parseRat v
      if integral && v.den ≠ 1 then none else
      let a ← regs[r]?
      fin r (a.add v)
  | ["plus", r, a, b] => do
      let r ← reg r; let a ← reg a; let b ← reg b
      let x ← regs[a]?; let y ← regs[b]?
      fin r (x.plus y)
  | ["pluseq", r, a] => do
      let r ← reg r; let a ← reg a
      let x ← regs[r]?; let y ← regs[a]?
      fin r (if r = a then x.plusEqSelf else x.plusEq y)
  | ["copy", r, a] => do
      let r ← reg r; let a ← reg a
      let y ← regs[a]?
      fin r (some y)
  | _ => none

def stepInt (ts : List String) : Option String :=
  match ts with
  | op :: fn :: ty :: args => do
      let (w, sg) ← typeOf ty
      let _ ← evalFn fn w sg 0 1   -- does the implementation exist for this type?
      let a ← args.mapM String.toNat?
      if a.any (· ≥ 2 ^ 64) then none else
      let wmask := 2 ^ w - 1
      let two := twoArgs fn
      match op with
      | "v" =>
          if two || a.isEmpty || a.any (· > wmask) then none else
          some (" ".intercalate (a.map fun x => match evalFn fn w sg x 0 with | some r => showR r | none => "?"))
      | "v2" =>
          if !two || a.isEmpty || a.length % 2 ≠ 0 then none else
          let rec pairs : List Nat → List (Nat × Nat)
            | x :: y :: r => (x, y) :: pairs r
            | _ => []
          let ps := pairs a
          if ps.any (fun p => p.1 > wmask) then none else
          some (" ".intercalate (ps.map fun p => match evalFn fn w sg p.1 p.2 with | some r => showR r | none => "?"))
      | "r" =>
          match a with
          | [lo, hi, step] =>
              if two || step = 0 || lo > hi || hi > wmask then none else
              some (sweep lo hi step (fun (s : Chk) x => s.one fn w sg x 0) {}).show
          | _ => none
      | "r2" =>
          match a with
          | [alo, ahi, astep, blo, bhi, bstep] =>
              if !two || astep = 0 || bstep = 0 || alo > ahi || blo > bhi || ahi > wmask then none else
              some (sweep alo ahi astep (fun (s : Chk) x => sweep blo bhi bstep (fun (s : Chk) y => s.one fn w sg x y) s) {}).show
          | _ => none
      | "x" =>
          match a with
          | [lo, hi] => if two || lo > hi || hi > wmask then none else some "n/a"
          | _ => none
      | _ => none
  | _ => none

def hexVal (c : Char) : Option Nat :=
  if '0' ≤ c && c ≤ '9' then some (c.toNat - '0'.toNat)
  else if 'a' ≤ c && c ≤ 'f' then some (c.toNat - 'a'.toNat + 10) else none

def hexBytes : List Char → Option (List (BitVec 8))
  | [] => some []
  | h :: l :: rest => do
      let h ← hexVal h; let l ← hexVal l
      let r ← hexBytes rest
      pure (BitVec.ofNat 8 (h * 16 + l) :: r)
  | _ => none

def stepPb (ts : List String) : Option String :=
  match ts with
  | ["pb", off, hex] => do
      let off ← off.toNat?
      if off > 7 then none else
      let bs ← hexBytes (if hex = "-" then [] else hex.toList)
      pure (toString (popcountBuf bs))
  | _ => none

def stepMixed (ts : List String) : Option String :=
  match ts with
  | op :: fn :: tn :: tk :: args => do
      let (wn, sn) ← typeOf tn
      let (wk, sk) ← typeOf tk
      let _ ← evalMixed fn wn sn wk sk 0 1
      match op with
      | "vm" =>
          let a ← args.mapM String.toNat?
          if a.isEmpty || a.length % 2 ≠ 0 then none else
          let rec pairs : List Nat → List (Nat × Nat)
            | x :: y :: r => (x, y) :: pairs r
            | _ => []
          let ps := pairs a
          if ps.any (fun p => p.1 ≥ 2 ^ wn || p.2 ≥ 2 ^ wk) then none else
          some (" ".intercalate (ps.map fun p => match evalMixed fn wn sn wk sk p.1 p.2 with | some r => showR r | none => "?"))
      | "sm" =>
          if !args.isEmpty then none else
          let acc := (structured wn).foldl (fun (s : Chk) x =>
            (structured wk).foldl (fun (s : Chk) y =>
              match evalMixed fn wn sn wk sk x y with
              | some .skip => { s with skip := s.skip + 1, h := fold s.h skipMark }
              | some (.val v) => { s with n := s.n + 1, h := fold s.h (lowBits v) }
              | _ => { s with bad := true }) s) {}
          let rt := (if commSg wn sn wk sk then "i" else "u") ++ toString (commW wn wk)
          some (if acc.bad then "FUEL" else s!"R={rt} {acc.show}")
      | _ => none
  | _ => none

def step (s : St) (ts : List String) : St × String :=
  match ts with
  | "vm" :: _ | "sm" :: _ =>
      match stepMixed ts with
      | some out => (s, out)
      | none => (s, "bad-op")
  | "pb" :: _ =>
      match stepPb ts with
      | some out => (s, out)
      | none => (s, "bad-op")
  | "agg" :: "d" :: rest =>
      match stepAgg limD false s.d rest with
      | some (d, out) => ({ s with d := d }, out)
      | none => (s, "bad-op")
  | "agg" :: "i" :: rest =>
      match stepAgg limI true s.i rest with
      | some (i, out) => ({ s with i := i }, out)
      | none => (s, "bad-op")
  | _ =>
      match stepInt ts with
      | some out => (s, out)
      | none => (s, "bad-op")

def main : IO Unit := Drv.loop St.init step
