import TlxVerif.Model.Drv
import TlxVerif.Model.C09LoserTree
open TlxVerif TlxVerif.C09

/-- comparator of the harness: `lt`, `gt`, `q4` (a/4 < b/4) -/
def cmpOf (mode : String) : Option (Int → Int → Bool) :=
  match mode with
  | "lt" => some fun a b => decide (a < b)
  | "gt" => some fun a b => decide (a > b)
  | "q4" => some fun a b => decide (a / 4 < b / 4)
  | _ => none

structure Sess where
  t : Tree Int
  lt : Int → Int → Bool
  seqs : Array (Array Int)
  pos : Array Nat
  inited : Bool := false
  storage : Nat := 0      -- 0 array, 1 slot (refilled in place), 2 fresh (consumed keys freed)

abbrev St := Option Sess

def variantOf (s : String) : Option Variant :=
  match s.toList with
  | [c, g, st] =>
    if (c = 'c' || c = 'p') && (g = 'g' || g = 'u') && (st = 'u' || st = 's') then
      some { copy := c = 'c', guarded := g = 'g', stable := st = 's' }
    else none
  | _ => none

def intCsv (s : String) : Option (List Int) :=
  if s = "-" then some [] else (s.splitOn ",").mapM String.toInt?

def srcStr (s : Nat) : String := if s = invalid then "-1" else toString s

def entryStr (guarded : Bool) (e : Entry Int) : String :=
  srcStr e.source ++ ":" ++ (if guarded && e.sup then "S" else toString e.key)

/-- copy guarded classes also show the `key` member of supremum nodes -/
def entryStrV (v : Variant) (e : Entry Int) : String :=
  if v.copy && v.guarded && e.sup then srcStr e.source ++ ":S/" ++ toString e.key else entryStr v.guarded e

def stateStr (s : Sess) : Option String := do
  let w ← s.t.minSource
  if s.t.k > 256 then pure s!"w={srcStr w} T=#{s.t.k}" else
  let es ← (List.range s.t.k).mapM fun i => rd s.t.losers i
  pure s!"w={srcStr w} T=[{" ".intercalate (es.map (entryStrV s.t.v))}]"

def curKey (s : Sess) (i : Nat) : Option Int := do
  let q ← s.seqs[i]?
  let p ← s.pos[i]?
  q[p]?

def doNew (ts : List String) : Option Sess := do
  match ts with
  | v :: c :: k :: sen :: rest =>
    let v ← variantOf v
    let lt ← cmpOf c
    let k ← k.toNat?
    if k < 1 || k > 200000 || rest.length ≠ k then none
    let sentinel : Option Int ← (if sen = "-" then some none else (sen.toInt?).map some)
    if !v.guarded && sentinel.isNone then none
    let seqs ← rest.mapM intCsv
    if seqs.any (fun q => q.any (fun x => x < 0 || x > 1000000)) then none
    if !v.guarded && seqs.any (·.isEmpty) then none
    let t ← construct v k (sentinel.getD 0) (0 : Int)
    pure { t := t, lt := lt, seqs := (seqs.map List.toArray).toArray, pos := Array.replicate k 0 }
  | _ => none

def doInit (s : Sess) (order : List Nat) : Option (Sess × String) := do
  if s.inited then none
  let t ← insertList 0 (order.map fun i => (i, curKey s i)) s.t
  let t ← t.init s.lt
  let s' := { s with t := t, inited := true }
  let out ← stateStr s'
  pure (s', out)

def canReplace (s : Sess) : Bool :=
  s.inited &&
  match rd s.t.losers 0 with
  | none => false
  | some W =>
    let w := W.source
    w < s.t.ik && (curKey s w).isSome && !(s.t.v.guarded && W.sup) &&
    (s.t.v.guarded ||
      match s.pos[w]?, s.seqs[w]? with
      | some p, some q => p + 1 < q.size
      | _, _ => false)

def doReplace (s : Sess) : Option (Sess × String) := do
  let W ← rd s.t.losers 0
  let w := W.source
  let p ← s.pos[w]?
  let s1 := { s with pos := s.pos.setIfInBounds w (p + 1) }
  -- pointer classes: the memory losers_[0].keyp points to now holds the next key (slot), the
  -- exhausted-slot filler, or nothing valid at all (fresh: modelled by a poison value)
  let t0 := if s1.t.v.copy || s1.storage = 0 then s1.t
    else if s1.storage = 1 then s1.t.clobberWinnerKey ((curKey s1 w).getD 424242)
    else s1.t.clobberWinnerKey (-777777)
  let t ← t0.deleteMinInsert s1.lt 0 (curKey s1 w)
  let s2 := { s1 with t := t }
  let out ← stateStr s2
  pure (s2, out)

def step' (st : St) (ts : List String) : St × String :=
  match ts with
  | "new" :: rest =>
    match doNew rest with
    | some s => (some s, "ok")
    | none => (none, "bad-op")
  | ["ctor", m] =>
    -- how the harness hands the comparator to the constructor; the tree owns a copy of the order it
    -- was constructed with, so the model is the same in all four modes
    match st with
    | some s =>
      if s.inited then (st, "bad-op")
      else if m = "named" || m = "temp" || m = "mutate" || m = "factory" then (st, "ok") else (st, "bad-op")
    | none => (st, "bad-op")
  | ["storage", m] =>
    match st with
    | some s =>
      if s.inited then (st, "bad-op") else
      match m with
      | "array" => (some { s with storage := 0 }, "ok")
      | "slot" => (some { s with storage := 1 }, "ok")
      | "fresh" => (some { s with storage := 2 }, "ok")
      | _ => (st, "bad-op")
    | none => (st, "bad-op")
  | "init" :: rest =>
    match st with
    | some s =>
      let order : Option (List Nat) := match rest with
        | [] => some (List.range s.t.ik)
        | [p] => (Drv.natCsv p).bind fun l =>
            if l.length = s.t.ik && l.all (· < s.t.ik) && l.eraseDups.length = l.length then some l else none
        | _ => none
      match order with
      | none => (st, "bad-op")
      | some ord =>
        if s.inited then (st, "bad-op") else
        match doInit s ord with
        | some (s', out) => (some s', out)
        | none => (st, "MODEL-FAILURE")
    | none => (st, "bad-op")
  | ["replace"] =>
    match st with
    | some s =>
      if !canReplace s then (st, "bad-op") else
      match doReplace s with
      | some (s', out) => (some s', out)
      | none => (st, "MODEL-FAILURE")
    | none => (st, "bad-op")
  | _ => (st, "bad-op")

def main : IO Unit := Drv.loop (none : St) step'
