import TlxVerif.Model.Drv
import TlxVerif.Model.C05Merge
import TlxVerif.Gen.C05MergeTables
open TlxVerif TlxVerif.C05

/-- element of the harness: (key, seq, pos), compared by key only -/
structure Elem where
  key : Int
  seq : Nat
  pos : Nat
  deriving Repr, Inhabited

def cmpOf (mode : String) : Option (Elem → Elem → Bool) :=
  match mode with
  | "lt" => some fun a b => decide (a.key < b.key)
  | "gt" => some fun a b => decide (a.key > b.key)
  | "q4" => some fun a b => decide (a.key / 4 < b.key / 4)
  | _ => none

def intCsv (s : String) : Option (List Int) :=
  if s = "-" then some [] else (s.splitOn ",").mapM String.toInt?

def showElem (e : Elem) : String := s!"{e.key}:{e.seq}:{e.pos}"

def sortedBy (lt : Elem → Elem → Bool) : List Elem → Bool
  | a :: b :: rest => !lt b a && sortedBy lt (b :: rest)
  | _ => true

def doMerge (ts : List String) : Option String := do
  match ts with
  | entry :: algo :: elem :: mode :: len :: sen :: seqToks =>
    let lt ← cmpOf mode
    let len ← len.toNat?
    let (stable, sentinels) ← match entry with
      | "mm" | "b00" => some (false, false)
      | "smm" | "b10" => some (true, false)
      | "mms" | "b01" => some (false, true)
      | "smms" | "b11" => some (true, true)
      | _ => none
    let mwma ← match algo with
      | "lt" => some Algo.loserTree
      | "ltc" | "def" => some Algo.loserTreeCombined
      | "lts" => some Algo.loserTreeSentinel
      | "bub" => some Algo.bubble
      | _ => none
    let copy ← match elem with
      | "e8" | "d8" => some true
      | "e40" | "d40" => some false
      | _ => none
    let keys ← seqToks.mapM intCsv
    let total := (keys.map List.length).sum
    if len > total then none
    let senKey : Option Int ← (if sen = "-" then some none else sen.toInt?.map some)
    if sentinels && senKey.isNone then none
    let guardOf : Option Elem := if sentinels then senKey.map fun k => { key := k, seq := 262143, pos := 16383 } else none
    let seqs : List (Seq Elem) := keys.zipIdx.map fun (q, i) =>
      { xs := q.zipIdx.map fun (k, p) => ({ key := k, seq := i, pos := p } : Elem), guard := guardOf }
    if seqs.any (fun s => !sortedBy lt s.xs) then none
    if sentinels then
      match guardOf with
      | some g => if seqs.any (fun s => s.xs.any (fun x => !lt x g)) then none
      | none => none
    match multiwayMergeBase Gen.merge3 Gen.merge4 copy stable sentinels lt default seqs len mwma with
    | none => some "MODEL-FAILURE"
    | some (fin, out) =>
      let adv := (seqs.zip fin).map fun (s, f) => s.xs.length - f.xs.length
      let o := if out.isEmpty then "-" else ",".intercalate (out.map showElem)
      some s!"ret={out.length} out={o} adv={Drv.showCsv adv}"
  | _ => none

def step (_ : Unit) (ts : List String) : Unit × String :=
  match ts with
  | "merge" :: rest =>
    match doMerge rest with
    | some out => ((), out)
    | none => ((), "bad-op")
  | _ => ((), "bad-op")

def main : IO Unit := Drv.loop () step
