import TlxVerif.Model.Drv
import TlxVerif.Model.C13DAry
import TlxVerif.Model.C13Addr
import TlxVerif.Model.C13Radix
open TlxVerif TlxVerif.C13

/-- size of the key universe of the d-ary heaps (same constant as in harness/c13.cpp) -/
def U : Nat := 48

inductive Kind where
  | none
  | dary (d : Nat) (hd : 0 < d) (h : Array Nat)
  | addr (d : Nat) (hd : 0 < d) (s : AH) (ref : List Nat)
  | radix (c : RCfg) (h : RH c) (frontier : Option Int) (nextPayload : Nat)

structure St where
  prio : Array Int := (Array.range U).map fun (k : Nat) => Int.ofNat k
  rev : Bool := false
  kind : Kind := .none

def St.lt (s : St) (a b : Nat) : Bool :=
  if s.rev then decide (s.prio.getD a 0 > s.prio.getD b 0) else decide (s.prio.getD a 0 < s.prio.getD b 0)

def showArr (a : Array Nat) : String := Drv.showCsv a.toList

def showHandles (h : Handles) : String :=
  if h.isEmpty then "-" else ",".intercalate (h.toList.map fun | some i => toString i | none => "x")

def parseKP (s : String) : Option (List (Nat × Int)) :=
  if s = "-" then some [] else
  (s.splitOn ",").mapM fun w =>
    match w.splitOn ":" with
    | [k, p] => do
        let k ← k.toNat?
        let p ← p.toInt?
        if k < U then some (k, p) else none
    | _ => none

def setPrios (s : St) (kp : List (Nat × Int)) : St :=
  { s with prio := kp.foldl (fun pr x => pr.set! x.1 x.2) s.prio }

def keysOk (ks : List Nat) : Bool := ks.all (· < U)

/-- repeated extract_top -/
def drainD (lt : Nat → Nat → Bool) (d : Nat) (hd : 0 < d) : Nat → Array Nat → List Nat → Option (List Nat)
  | 0, _, acc => some acc.reverse
  | fuel + 1, h, acc =>
    match h[0]? with
    | none => some acc.reverse
    | some t =>
      match pop lt d hd h with
      | some h' => drainD lt d hd fuel h' (t :: acc)
      | none => none

def drainA (lt : Nat → Nat → Bool) (d : Nat) (hd : 0 < d) : Nat → AH → List Nat → Option (AH × List Nat)
  | 0, s, acc => some (s, acc.reverse)
  | fuel + 1, s, acc =>
    match s.heap[0]? with
    | none => some (s, acc.reverse)
    | some t =>
      match s.pop lt d hd with
      | some s' => drainA lt d hd fuel s' (t :: acc)
      | none => none

def ub : String := "MODEL-UB"

def stepDary (s : St) (d : Nat) (hd : 0 < d) (h : Array Nat) (ts : List String) : St × String :=
  let lt := s.lt
  let fin (s' : St) (h' : Array Nat) (ret : String) : St × String :=
    ({ s' with kind := .dary d hd h' }, s!"{ret} ; h={showArr h'}")
  match ts with
  | ["push", k] =>
    match k.toNat? with
    | some k => if k < U then fin s (push lt d h k) "ok" else (s, "bad-op")
    | none => (s, "bad-op")
  | ["pushat", i] =>
    -- push(heap_[i]): the pushed key is the one stored in slot i
    match i.toNat? with
    | some i => match h[i]? with | some k => fin s (push lt d h k) "ok" | none => (s, "bad-op")
    | none => (s, "bad-op")
  | ["top"] => match top? h with | some t => fin s h (toString t) | none => (s, "bad-op")
  | ["pop"] | ["xtop"] =>
    match top? h with
    | some t => match pop lt d hd h with | some h' => fin s h' (toString t) | none => (s, ub)
    | none => (s, "bad-op")
  | ["reserve", n] =>
    match n.toNat? with
    | some n => if n ≤ 4096 then fin s h "ok" else (s, "bad-op")     -- capacity of heap_ is not modelled
    | none => (s, "bad-op")
  | ["capacity"] | ["copy"] | ["move"] => fin s h "ok"
  | ["size"] => fin s h (toString h.size)
  | ["empty"] => fin s h (if h.isEmpty then "1" else "0")
  | ["clear"] => fin s #[] "ok"
  | ["sanity"] => fin s h (if sanity lt d h then "1" else "0")
  | ["drain"] =>
    match drainD lt d hd (h.size + 1) h [] with
    | some out => fin s #[] (Drv.showCsv out)
    | none => (s, ub)
  | ["build", v, ks] =>
    if v = "it" ∨ v = "cv" ∨ v = "mv" ∨ v = "dq" ∨ v = "li" ∨ v = "fl" ∨ v = "sp" then
      match Drv.natCsv ks with
      | some ks => if keysOk ks then fin s (build lt d hd ks.toArray) "ok" else (s, "bad-op")
      | none => (s, "bad-op")
    else (s, "bad-op")
  | ["setp", kp] =>
    match parseKP kp with
    | some kp => if kp.any (fun x => h.contains x.1) then (s, "bad-op") else fin (setPrios s kp) h "ok"
    | none => (s, "bad-op")
  | ["reprio", kp] =>
    match parseKP kp with
    | some kp =>
      let s' := setPrios s kp
      fin s' (updateAll s'.lt d hd h) "ok"
    | none => (s, "bad-op")
  | _ => (s, "bad-op")

def stepAddr (s : St) (d : Nat) (hd : 0 < d) (a : AH) (ref : List Nat) (ts : List String) : St × String :=
  let lt := s.lt
  let fin (s' : St) (a' : AH) (ref' : List Nat) (ret : String) : St × String :=
    ({ s' with kind := .addr d hd a' ref' }, s!"{ret} ; h={showArr a'.heap} ; hd={showHandles a'.handles}")
  let opt (s' : St) (r : Option AH) (ref' : List Nat) (ret : String) : St × String :=
    match r with | some a' => fin s' a' ref' ret | none => (s, ub)
  match ts with
  | ["push", k] =>
    match k.toNat? with
    | some k => if k < U ∧ ¬ ref.contains k then opt s (a.push lt d k) (k :: ref) "ok" else (s, "bad-op")
    | none => (s, "bad-op")
  | ["top"] =>
    if ref.isEmpty then (s, "bad-op") else
    match a.top? with | some t => fin s a ref (toString t) | none => (s, "bad-op")
  | ["pop"] | ["xtop"] =>
    if ref.isEmpty then (s, "bad-op") else
    match a.top? with
    | some t => opt s (a.pop lt d hd) (ref.erase t) (toString t)
    | none => (s, "bad-op")
  | ["remove", k] =>
    match k.toNat? with
    | some k =>
      if k < U ∧ ref.contains k ∧ a.contains k then opt s (a.remove lt d hd k) (ref.erase k) "ok"
      else (s, "bad-op")
    | none => (s, "bad-op")
  | ["contains", k] =>
    match k.toNat? with
    | some k => if k ≤ 200 then fin s a ref (if a.contains k then "1" else "0") else (s, "bad-op")
    | none => (s, "bad-op")
  | ["updat", i, p] =>
    match i.toNat?, p.toInt? with
    | some i, some p =>
      match a.heap[i]? with
      | some k =>
        if k < U ∧ ref.contains k ∧ a.contains k then
          let s' := setPrios s [(k, p)]
          opt s' (a.update s'.lt d hd k) ref "ok"
        else (s, "bad-op")
      | none => (s, "bad-op")
    | _, _ => (s, "bad-op")
  | ["upd", k, p] =>
    match k.toNat?, p.toInt? with
    | some k, some p =>
      if k < U ∧ (a.contains k == ref.contains k) then
        let s' := setPrios s [(k, p)]
        opt s' (a.update s'.lt d hd k) (if ref.contains k then ref else k :: ref) "ok"
      else (s, "bad-op")
    | _, _ => (s, "bad-op")
  | ["reserve", n] =>
    match n.toNat? with
    | some n => if n ≤ 4096 then fin s (a.reserve n) ref "ok" else (s, "bad-op")
    | none => (s, "bad-op")
  | ["capacity"] | ["copy"] | ["move"] => fin s a ref "ok"
  | ["size"] => fin s a ref (toString a.heap.size)
  | ["empty"] => fin s a ref (if a.heap.isEmpty then "1" else "0")
  | ["clear"] => fin s a.clear [] "ok"
  | ["sanity"] => fin s a ref (if a.sanity lt d then "1" else "0")
  | ["drain"] =>
    match drainA lt d hd (a.heap.size + 1) a [] with
    | some (a', out) => fin s a' [] (Drv.showCsv out)
    | none => (s, ub)
  | ["build", v, ks] =>
    if v = "it" ∨ v = "cv" ∨ v = "mv" ∨ v = "dq" ∨ v = "li" ∨ v = "fl" ∨ v = "sp" then
      match Drv.natCsv ks with
      | some ks =>
        if keysOk ks ∧ ks.eraseDups.length = ks.length then opt s (a.build lt d hd ks.toArray) ks "ok"
        else (s, "bad-op")
      | none => (s, "bad-op")
    else (s, "bad-op")
  | ["setp", kp] =>
    match parseKP kp with
    | some kp => if kp.any (fun x => ref.contains x.1) then (s, "bad-op") else fin (setPrios s kp) a ref "ok"
    | none => (s, "bad-op")
  | ["reprio", kp] =>
    match parseKP kp with
    | some kp =>
      let s' := setPrios s kp
      opt s' (a.updateAll s'.lt d hd) ref "ok"
    | none => (s, "bad-op")
  | _ => (s, "bad-op")

/-! radix heap -/

def showKey (c : RCfg) (k : BitVec c.w) : String := toString (keyVal c k)

def showVal (c : RCfg) (v : RVal c.w) : String := s!"{showKey c v.1}/{v.2}"

def dumpRadix {c : RCfg} (h : RH c) : String :=
  let bs := (List.range h.buckets.size).filterMap fun i =>
    match h.buckets[i]? with
    | some b => if b.isEmpty then none else some s!"{i}:{",".intercalate (b.toList.map (showVal c))}"
    | none => none
  let ms := (List.range h.mins.size).filterMap fun i =>
    match h.mins[i]? with
    | some m => if m = maxRank c.w then none else some s!"{i}:{m.toNat}"
    | none => none
  let fs := (List.range h.filled.nb).filter fun i => h.filled.isSet i
  let dash (l : List String) (sep : String) := if l.isEmpty then "-" else sep.intercalate l
  s!"n={h.size} lim={h.limit.toNat} cur={h.cur} ; b={dash bs "|"} ; m={dash ms ","} ; f={dash (fs.map toString) ","}"

def parseKey (c : RCfg) (s : String) : Option (BitVec c.w × Int) := do
  let k ← s.toInt?
  let lo : Int := if c.signed then -(2 ^ (c.w - 1) : Nat) else 0
  let hi : Int := if c.signed then (2 ^ (c.w - 1) : Nat) - 1 else (2 ^ c.w : Nat) - 1
  if lo ≤ k ∧ k ≤ hi then some (BitVec.ofInt c.w k, k) else none

/-- repeated top() + pop() -/
def drainR {c : RCfg} (h : RH c) : Nat → List (RVal c.w) → Option (RH c × List (RVal c.w))
  | 0, acc => some (h, acc.reverse)
  | fuel + 1, acc =>
    if h.size = 0 then some (h, acc.reverse) else
    match h.top with
    | none => none
    | some (h1, v) =>
      match h1.pop with
      | none => none
      | some (h2, _) => drainR h2 fuel (v :: acc)

def stepRadix (s : St) (c : RCfg) (h : RH c) (fr : Option Int) (np : Nat) (ts : List String) : St × String :=
  let fin (h' : RH c) (fr' : Option Int) (np' : Nat) (ret : String) : St × String :=
    ({ s with kind := .radix c h' fr' np' }, s!"{ret} ; {dumpRadix h'}")
  let below (k : Int) : Bool := match fr with | some f => decide (k < f) | none => false
  match ts with
  | [op, ks] =>
    if op = "push" ∨ op = "emplace" ∨ op = "emplacekf" ∨ op = "getb" ∨ op = "pushb" ∨ op = "emplaceb" then
      match parseKey c ks with
      | some (k, kv) =>
        if below kv then (s, "bad-op")
        else if op = "getb" then fin h fr np (toString (h.getBucketKey k))
        else if op = "pushb" ∨ op = "emplaceb" then
          -- the hint overloads: bucket index from get_bucket / get_bucket_key, then push_to_bucket
          let idx := h.getBucketKey k
          match h.pushToBucket idx (k, np) with
          | some h' => fin h' fr (np + 1) (toString idx)
          | none => (s, ub)
        else
          match h.push (k, np) with
          | some (h', idx) => fin h' fr (np + 1) (toString idx)
          | none => (s, ub)
      | none => (s, "bad-op")
    else (s, "bad-op")
  | ["pushtop"] | ["pushbtop"] | ["emplacetop"] =>
    -- top(), then push / push_to_bucket / emplace of the reported (stored) element itself, same payload
    if h.size = 0 then (s, "bad-op") else
    match h.top with
    | some (h1, v) =>
      let idx := h1.getBucketKey v.1
      match h1.pushToBucket idx v with
      | some h2 => fin h2 (some (keyVal c v.1)) np (toString idx)
      | none => (s, ub)
    | none => (s, ub)
  | ["top"] =>
    if h.size = 0 then (s, "bad-op") else
    match h.top with
    | some (h', v) => fin h' (some (keyVal c v.1)) np (showVal c v)
    | none => (s, ub)
  | ["pop"] =>
    if h.size = 0 then (s, "bad-op") else
    match h.pop with
    | some (h', v) => fin h' (some (keyVal c v.1)) np "ok"
    | none => (s, ub)
  | ["swap"] =>
    if h.size = 0 then (s, "bad-op") else
    match h.swapTopBucket with
    | some (h', b) =>
      let f' := match b[0]? with | some v => some (keyVal c v.1) | none => fr
      fin h' f' np (if b.isEmpty then "-" else ",".intercalate (b.toList.map (showVal c)))
    | none => (s, ub)
  | ["peak"] =>
    if h.size = 0 then (s, "bad-op") else
    match h.peakTopKey with
    | some k => fin h fr np (showKey c k)
    | none => (s, ub)
  | ["drain"] =>
    match drainR h h.size [] with
    | some (h', out) =>
      let f' := match out.getLast? with | some v => some (keyVal c v.1) | none => fr
      fin h' f' np (if out.isEmpty then "-" else ",".intercalate (out.map (showVal c)))
    | none => (s, ub)
  | ["size"] => fin h fr np (toString h.size)
  | ["empty"] => fin h fr np (if h.size = 0 then "1" else "0")
  | ["clear"] => fin h.clear none np "ok"
  | ["copy"] | ["move"] => fin h fr np "ok"
  | _ => (s, "bad-op")

def keyType (t : String) : Option (Nat × Bool) :=
  match t with
  | "i8" => some (8, true) | "u8" => some (8, false) | "i16" => some (16, true)
  | "u32" => some (32, false) | "i64" => some (64, true) | "u64" => some (64, false)
  | _ => none

def configure (s : St) (ts : List String) : St × String :=
  match ts with
  | ["cfg", "dary", a, r] =>
    match a.toNat? with
    | some d => if hd : 0 < d ∧ d ≤ 8 then ({ s with rev := r = "1", kind := .dary d hd.1 #[] }, "ok") else (s, "bad-op")
    | none => (s, "bad-op")
  | ["cfg", "dary", a, r, kt] =>
    -- the key type (u32 / move-sensitive struct / std::string) does not change the model
    match a.toNat? with
    | some d =>
      if hd : 0 < d ∧ d ≤ 8 then
        if kt = "u32" ∨ kt = "mk" ∨ kt = "str" then ({ s with rev := r = "1", kind := .dary d hd.1 #[] }, "ok")
        else (s, "bad-op")
      else (s, "bad-op")
    | none => (s, "bad-op")
  | ["cfg", "addr", a, r, kt] =>
    match a.toNat? with
    | some d =>
      if hd : 0 < d ∧ d ≤ 8 then
        if kt = "u32" ∨ kt = "u8" then ({ s with rev := r = "1", kind := .addr d hd.1 {} [] }, "ok") else (s, "bad-op")
      else (s, "bad-op")
    | none => (s, "bad-op")
  | ["cfg", "radix", r, kt] =>
    match r.toNat?, keyType kt with
    | some r, some (w, sg) =>
      let rb := Nat.log2 r
      if r = 2 ∨ r = 4 ∨ r = 8 ∨ r = 16 ∨ r = 64 then
        let c : RCfg := { w := w, signed := sg, rb := rb }
        ({ s with kind := .radix c (RH.init c) none 0 },
         s!"ok nb={numBuckets c} rb={rb} bits={w} signed={if sg then 1 else 0}")
      else (s, "bad-op")
    | _, _ => (s, "bad-op")
  | _ => (s, "bad-op")

def step (s : St) (ts : List String) : St × String :=
  match ts with
  | "cfg" :: _ => configure s ts
  | _ =>
    match s.kind with
    | .none => (s, "bad-op")
    | .dary d hd h => stepDary s d hd h ts
    | .addr d hd a ref => stepAddr s d hd a ref ts
    | .radix c h fr np => stepRadix s c h fr np ts

def main : IO Unit := Drv.loop ({} : St) step
