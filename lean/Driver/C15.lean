import TlxVerif.Model.Drv
import TlxVerif.Model.C15Tables
open TlxVerif TlxVerif.C15

/-- elements are (key, tag) -/
abbrev El := Int × Nat

def fdiv4 (k : Int) : Int := k.fdiv 4

/-- the harness' rank table order: a fixed permutation of `key mod 32` -/
def rankOf (k : Int) : Int := ((k.emod 32) * 13 + 5).emod 32

def baseOrd : String → Option (El → El → Bool)
  | "lt" => some fun a b => decide (a.1 < b.1)
  | "def" => some fun a b => decide (a.1 < b.1)
  | "gt" => some fun a b => decide (a.1 > b.1)
  | "q4" => some fun a b => decide (fdiv4 a.1 < fdiv4 b.1)
  | "rk" => some fun a b => decide (rankOf a.1 < rankOf b.1)
  | _ => none

/-- `fn-<o>`, `fnt-<o>`, `own-<o>`, `ownt-<o>`, `ownd`: the comparator *carrier* (std::function, an object owning
    a heap table, lvalue / temporary / default-constructed) is invisible to the model: only the order counts -/
def ordOf (s : String) : Option (El → El → Bool) :=
  if s = "ownd" || s = "dnam" then baseOrd "rk" else
  match s.splitOn "-" with
  | [o] => if o = "rk" then none else baseOrd o
  | [c, o] =>
    if o = "def" then none
    else if c = "fn" || c = "fnt" || c = "fp" || c = "fconv" then (if o = "rk" then none else baseOrd o)
    else if c = "own" || c = "ownt" || c = "nown" || c = "fact" || c = "scop" then baseOrd o else none
  | _ => none

def famOf : String → Option Family
  | "best" => some .best
  | "bose_nelson" => some .boseNelson
  | "bose_nelson_parameter" => some .boseNelsonParameter
  | _ => none

def entryOf : String → Option Entry
  | "direct" => some .direct
  | "dispatch" => some .dispatch
  | _ => none

/-- tlx has `sort2 … sort16` and a dispatch for 0 … 16 -/
def existsEntry (e : Entry) (n : Nat) : Bool :=
  match e with
  | .direct => 2 ≤ n && n ≤ 16
  | .dispatch => n ≤ 16

def intCsv (s : String) : Option (List Int) :=
  if s = "-" then some [] else (s.splitOn ",").mapM String.toInt?

def showEls (l : List El) : String :=
  if l.isEmpty then "-" else ",".intercalate (l.map fun e => s!"{e.1}:{e.2}")

/-- 64-bit limbs of `w`, least significant first -/
def limbsOf (w : Nat) (count : Nat) : List UInt64 :=
  (List.range count).map fun l => UInt64.ofNat ((w >>> (64 * l)) % 2 ^ 64)

def popcount64 (x : UInt64) : Nat :=
  (List.range 64).foldl (fun c b => if (x >>> UInt64.ofNat b) &&& 1 == 1 then c + 1 else c) 0

def zo (net : Net) (n : Nat) : String :=
  let ws := applyNetBP net (wiresRec n)
  let limbs := if n ≤ 6 then 1 else 2 ^ (n - 6)
  let h := ws.foldl (fun h w => (limbsOf w limbs).foldl (fun h l => (h ^^^ l) * 1099511628211) h)
    (14695981039346656037 : UInt64)
  -- inputs on which some wire is 1 while the next is 0
  let bad := (ws.zip ws.tail).foldl (fun acc p => acc ||| (p.1 - (p.1 &&& p.2))) 0
  let fails := (limbsOf bad limbs).foldl (fun c l => c + popcount64 l) 0
  -- `permfails`: every network output is a permutation of its input (theorem `applyNet_perm`), and the
  -- model has no memory outside the list
  s!"fails={fails} permfails=0 sig={h.toNat}"

def step (_ : Unit) (ts : List String) : Unit × String :=
  -- the iterator kind (`runi <kind> <variant> …`, `zo … <kind>`) is invisible to the model: a network is a
  -- function of the logical sequence
  let ts := match ts with
    | "runi" :: kind :: variant :: rest =>
      -- comparator carriers are exercised through pointers only
      let carrierOk := kind = "ptr" || (match rest with | [_, _, _, o, _] => ["lt", "gt", "q4", "def"].contains o | _ => false)
      if ["ptr", "rev", "deque", "stride"].contains kind && variant.toNat?.isSome && carrierOk then "run" :: rest else ["bad"]
    | ["zo", f, e, n, kind] => if ["ptr", "rev", "deque", "stride"].contains kind then ["zo", f, e, n] else ["bad"]
    | _ => ts
  let r : Option String :=
    match ts with
    | ["run", f, e, n, ord, keys] => do
        let f ← famOf f; let e ← entryOf e; let n ← n.toNat?
        let lt ← ordOf ord; let ks ← intCsv keys
        -- the named-cswap construction patterns exist for the direct entry points only
        let namedOnly := ord = "dnam" || ["nown-", "fact-", "scop-", "fconv-"].any (fun p => ord.startsWith p)
        if !existsEntry e n || ks.length ≠ n || (namedOnly && e != .direct) then none else
        let a : List El := ks.zipIdx
        match e with
        | .direct => pure (showEls (applyNet lt (network f .direct n) a))
        | .dispatch => (sortDispatch (table f .dispatch) lt a).map showEls
    | ["zo", f, e, n] => do
        let f ← famOf f; let e ← entryOf e; let n ← n.toNat?
        if !existsEntry e n then none else
        pure (zo (network f e n) n)
    | _ => none
  ((), r.getD "bad-op")

def main : IO Unit := Drv.loop () step
