import TlxVerif.Model.Drv
import TlxVerif.Model.C01Step
open TlxVerif TlxVerif.C01

/-- line-protocol driver of the B+ tree model (C02: invariants, stats and the allocation ledger;
the model is the one of C01, the answers carry the structure dump, `stats_` and the per-operation
allocation counts) -/
def main : IO Unit := Drv.loop ({} : St) step
