import TlxVerif.Model.Drv
import TlxVerif.Model.C10Sched
import TlxVerif.Model.C11Sem
import TlxVerif.Model.C11BarM
import TlxVerif.Model.C11BarS
open TlxVerif TlxVerif.C11

inductive Scen
  | none
  | sem (init : Nat) (threads : List (List Sem.Op))
  | barrier (kind : String) (n gens : Nat) (act : Nat)

structure St where
  sc : Scen := .none
  lastResolved : Array Nat := #[]

def smallNum (s : String) (maxv : Nat) : Option Nat :=
  if s.length ≥ 1 ∧ s.length ≤ 2 ∧ s.all Char.isDigit then
    match s.toNat? with
    | some v => if v ≤ maxv then some v else none
    | none => none
  else none

def parseSemOp (tok : String) : Option Sem.Op :=
  if tok = "s" then some .signal1
  else if tok.startsWith "s" then (smallNum (tok.drop 1).toString 20).map .signalN
  else if tok.startsWith "w" || tok.startsWith "a" then
    match (tok.drop 1).toString.splitOn "/" with
    | [d, sl] =>
      match smallNum d 20, smallNum sl 20 with
      | some d, some sl => some (if tok.startsWith "w" then .wait d sl else .tryAcq d sl)
      | _, _ => none
    | _ => none
  else none

def finish {σ : Type} (s : St) (r : Sched.Result σ) (summary : String) : St × String :=
  ({ s with lastResolved := r.resolved }, s!"end={r.fin.show} {summary} steps={r.steps} |{Sched.showTrace r.trace}")

def doRun (s : St) (ts : List String) : St × String :=
  match Sched.parseParams ts with
  | none => (s, "bad-op")
  | some p =>
    match s.sc with
    | .none => (s, "bad-op")
    | .sem v threads =>
      let r := Sched.run Sem.lts p (Sem.init v threads)
      finish s r s!"value={r.st.value} acq={r.st.acquired} sig={r.st.signalled}"
    | .barrier kind n gens act =>
      if kind = "mutex" then
        let r := Sched.run BarM.lts p (BarM.init n gens act)
        finish s r s!"step={r.st.step} acts={r.st.begun}"
      else
        let r := Sched.run BarS.lts p (BarS.init n gens (kind = "spiny") act)
        finish s r s!"step={r.st.step} acts={r.st.begun}"

def showExplore (r : Nat × Bool) : String :=
  s!"explored={r.1} complete={if r.2 then 1 else 0} violated=0"

def doExplore (s : St) (ts : List String) : St × String :=
  match Sched.parseParams ts with
  | none => (s, "bad-op")
  | some p =>
    if !p.sched.isEmpty then (s, "bad-op") else
    match s.sc with
    | .none => (s, "bad-op")
    | .sem v threads => (s, showExplore (Sched.explore Sem.lts p (Sem.init v threads)))
    | .barrier kind n gens act =>
      if kind = "mutex" then (s, showExplore (Sched.explore BarM.lts p (BarM.init n gens act)))
      else (s, showExplore (Sched.explore BarS.lts p (BarS.init n gens (kind = "spiny") act)))

def step (s : St) (ts : List String) : St × String :=
  match ts with
  | ["sem", v] =>
    match smallNum v 20 with
    | some v => ({ s with sc := .sem v [] }, "ok")
    | none => (s, "bad-op")
  | "thread" :: ops =>
    match s.sc, ops.mapM parseSemOp with
    | .sem v threads, some l =>
      if threads.length < 6 then ({ s with sc := .sem v (threads ++ [l]) }, "ok") else (s, "bad-op")
    | _, _ => (s, "bad-op")
  | ["barrier", kind, n, g] =>
    if kind = "mutex" ∨ kind = "spin" ∨ kind = "spiny" then
      match smallNum n 6, smallNum g 8 with
      | some n, some g => if n ≥ 1 then ({ s with sc := .barrier kind n g 0 }, "ok") else (s, "bad-op")
      | _, _ => (s, "bad-op")
    else (s, "bad-op")
  | ["barrier", kind, n, g, a] =>
    if kind = "mutex" ∨ kind = "spin" ∨ kind = "spiny" then
      match smallNum n 6, smallNum g 8, Sched.keyNat "act" a with
      | some n, some g, some a => if n ≥ 1 ∧ a ≤ 4 then ({ s with sc := .barrier kind n g a }, "ok") else (s, "bad-op")
      | _, _, _ => (s, "bad-op")
    else (s, "bad-op")
  | "run" :: rest => doRun s rest
  | "explore" :: rest => doExplore s rest
  | ["sched"] => (s, Drv.showCsv s.lastResolved.toList)
  | _ => (s, "bad-op")

def main : IO Unit := Drv.loop ({} : St) step
