import TlxVerif.Model.Drv
import TlxVerif.Model.C04Sort
import TlxVerif.Model.C04Replay
open TlxVerif TlxVerif.C04

/-! Line-protocol driver of the C04 functional model (see harness/c04.cpp for the
operations).  The protocol state is the configuration and the strings of the case. -/

structure Cfg where
  p : Params
  threads : Nat
  withLcp : Bool

structure St where
  cfg : Option Cfg := none
  strs : List Str := []
  /-- `px`: common prefix put in front of the following `s` strings -/
  pre : Str := []

def hexVal (c : Char) : Option Nat :=
  if '0' ≤ c ∧ c ≤ '9' then some (c.toNat - '0'.toNat)
  else if 'a' ≤ c ∧ c ≤ 'f' then some (c.toNat - 'a'.toNat + 10)
  else if 'A' ≤ c ∧ c ≤ 'F' then some (c.toNat - 'A'.toNat + 10)
  else none

def parseHexAux : List Char → Option Str
  | [] => some []
  | a :: b :: rest => do
    let x ← hexVal a; let y ← hexVal b
    let v := x * 16 + y
    if v = 0 then none else
    let r ← parseHexAux rest
    pure (UInt8.ofNat v :: r)
  | _ => none

def parseStr (w : String) : Option Str := if w = "-" then some [] else parseHexAux w.toList

def parseStrs (tok : String) : Option (List Str) :=
  if tok = "none" then some [] else (tok.splitOn ",").mapM parseStr

def hexDigit (n : Nat) : Char := "0123456789abcdef".toList.getD n '?'

def showStr (s : Str) : String :=
  if s.isEmpty then "-" else String.ofList (s.flatMap fun c => [hexDigit (c.toNat / 16), hexDigit (c.toNat % 16)])

def showStrs (l : List Str) : String := if l.isEmpty then "none" else ",".intercalate (l.map showStr)

/-- `t<treebits>s<smallsort>i<inssort>[flags]` or `def` -/
def parseParams (name : String) : Option Params :=
  if name = "def" then some { treebits := 10, smallsort := 1048576, inssort := 32 } else
  match name.toList with
  | 't' :: rest =>
    let (tb, rest) := rest.span Char.isDigit
    match rest with
    | 's' :: rest =>
      let (sm, rest) := rest.span Char.isDigit
      match rest with
      | 'i' :: rest =>
        let (ins, flags) := rest.span Char.isDigit
        do
          let tb ← (String.ofList tb).toNat?
          let sm ← (String.ofList sm).toNat?
          let ins ← (String.ofList ins).toNat?
          pure { treebits := tb, smallsort := sm, inssort := ins, useCalc := !(flags.contains 'u') }
      | _ => none
    | _ => none
  | _ => none

def mkEnv (c : Cfg) (total : Nat) : Env :=
  { p := c.p
    isBig := fun n => n > max c.p.smallsort (total / c.threads)
    sampler := fun n cnt => (List.range cnt).map fun j => (j * 7919 + 13) % n
    pivot := fun keys => keys.length / 2 }

def showErr : Err → String
  | .oob => "MODEL-ERROR out-of-bounds"
  | .fuel => "MODEL-ERROR fuel"
  | .internal => "MODEL-ERROR internal"

def runGo (c : Cfg) (strs : List Str) : String :=
  let fuel := fuelFor strs
  match sortAll (mkEnv c strs.length) fuel strs with
  | .error e => showErr e
  | .ok r =>
    let l := if c.withLcp ∧ r.lcp.length ≥ 2 then Drv.showCsv (r.lcp.drop 1) else "-"
    s!"ok {showStrs r.out} | {l}"

def sentinel : Nat := 2 ^ 32

def insertSorted (s : Str) (l : List Str) : List Str := insertStr s l

def runClassify (kind tb depth : Nat) (samples strs : List Str) (withStep : Bool) : String :=
  let ns := numSplitters tb
  if samples.length ≠ 2 * ns ∨ ¬ (kind = 0 ∧ 1 ≤ tb ∧ tb ≤ 3 ∨ kind = 1 ∧ 2 ≤ tb ∧ tb ≤ 3) then "bad-op" else
  if (samples ++ strs).any (fun s => s.length < depth) then "bad-op" else
  let r : M String := do
    let sk ← keysOf samples depth
    if ¬ (sk.zip (sk.drop 1)).all (fun p => p.1 ≤ p.2) then pure "bad-op" else
    let c ← liftO .oob (build tb sk.toArray)
    let useCalc := kind = 0
    let spl ← (List.range ns).mapM fun i => liftO .oob (if useCalc then c.getSplitterCalc i else c.getSplitterArr i)
    let keys ← keysOf strs depth
    let ids ← keys.mapM fun k => liftO .oob ((c.findBkt useCalc k).map u16)   -- `std::uint16_t* bktout`
    let base := s!"ok spl={",".intercalate (spl.map fun k => toString k.toNat)} slcp={",".intercalate (c.slcp.map toString)} bkt={Drv.showCsv ids}"
    if ¬ withStep then pure base else
    let bktnum := 2 * ns + 1
    let bkts := bucketsOf strs ids bktnum
    let out := (bkts.map fun b => (baseSort b).out).flatten
    let bounds := boundsOf (bkts.map List.length)
    let lcps ← lcpPass c useCalc out (List.replicate out.length sentinel) depth bounds
    let border := (lcps.zipIdx.filter fun p => p.1 ≠ sentinel).map fun p => s!"{p.2}:{p.1}"
    pure s!"{base} bounds={",".intercalate (bounds.map toString)} border={if border.isEmpty then "-" else ",".intercalate border}"
  match r with
  | .ok s => s
  | .error e => showErr e

def runTrace (toks : List String) : String :=
  match toks.mapM Replay.parseEv with
  | none => "bad-op"
  | some evs =>
    match Replay.replay evs with
    | .ok msg => msg
    | .error e => "TRACE-REJECTED " ++ e

def step (s : St) (ts : List String) : St × String :=
  match ts with
  | "trace" :: toks => (s, runTrace toks)
  | ["cfg", params, repr, threads, lcp, reps] =>
    match parseParams params, threads.toNat?, reps.toNat? with
    | some p, some t, some r =>
      let fam4 := ["uc", "c", "vuc", "vc"]
      let fam10 := fam4 ++ ["cuc", "cc", "vcuc", "vcc", "s", "vs"]
      let okRepr := if params = "def" ∨ params = "t2s8i4" then fam10.contains repr else fam4.contains repr
      if okRepr ∧ 1 ≤ t ∧ t ≤ 16 ∧ 1 ≤ r ∧ (lcp = "0" ∨ lcp = "1") then
        ({ s with cfg := some { p := p, threads := t, withLcp := lcp = "1" } }, "ok")
      else ({ s with cfg := none }, "bad-op")
    | _, _, _ => ({ s with cfg := none }, "bad-op")
  | ["px", w, len] =>
    -- px <pattern> <len>: the following strings start with the pattern repeated up to `len` characters
    match parseStr w, len.toNat? with
    | some pat, some n =>
      if pat.isEmpty ∨ n > 100000 then (s, "bad-op")
      else ({ s with pre := ((List.replicate (n / pat.length + 1) pat).flatten).take n }, "ok")
    | _, _ => (s, "bad-op")
  | ["s", w] =>
    match parseStr w with
    | some x => ({ s with strs := s.strs ++ [s.pre ++ x] }, "ok")
    | none => (s, "bad-op")
  | ["s", w, cnt] =>
    match parseStr w, cnt.toNat? with
    | some x, some k => if 1 ≤ k ∧ k ≤ 100000 then ({ s with strs := s.strs ++ List.replicate k (s.pre ++ x) }, "ok") else (s, "bad-op")
    | _, _ => (s, "bad-op")
  | ["go"] =>
    match s.cfg with
    | some c => (s, runGo c s.strs)
    | none => (s, "bad-op")
  | ["big", params, _repr, threads, lcp, reps, kind, n, _seed, _alpha, _len] =>
    match parseParams params, threads.toNat?, reps.toNat?, n.toNat? with
    | some _, some t, some r, some n =>
      if 1 ≤ t ∧ t ≤ 16 ∧ 1 ≤ r ∧ (lcp = "0" ∨ lcp = "1") ∧ n ≥ 1 ∧
          ["equal", "random", "prefix", "chain", "few", "skew"].contains kind then (s, s!"ok {n}") else (s, "bad-op")
    | _, _, _, _ => (s, "bad-op")
  | ["keyfn", a, b, d] =>
    match a.toNat?, b.toNat?, d.toNat? with
    | some a, some b, some d =>
      if d > 7 then (s, "bad-op") else
      let a8 := BitVec.ofNat 64 a; let b8 := BitVec.ofNat 64 b
      let a4 := BitVec.ofNat 32 a; let b4 := BitVec.ofNat 32 b
      (s, s!"ok {lcpKeyType a8 b8} {lcpKeyDepth a8} {(getCharAtDepth a8 d).toNat} {lcpKeyType32 a4 b4} {lcpKeyDepth32 a4} {(getCharAtDepth32 a4 (d % 4)).toNat}")
    | _, _, _ => (s, "bad-op")
  | ["key", depth, w] =>
    match depth.toNat?, parseStr w with
    | some d, some x =>
      match getKey? x d, getKey32? x d with
      | some k, some k4 => (s, s!"ok {k.toNat} {k4.toNat}")
      | _, _ => (s, "bad-op")
    | _, _ => (s, "bad-op")
  | [op, kind, tb, depth, samples, strs] =>
    if op = "classify" ∨ op = "step" then
      match kind.toNat?, tb.toNat?, depth.toNat?, parseStrs samples, parseStrs strs with
      | some k, some tb, some d, some sa, some st => (s, runClassify k tb d sa st (op = "step"))
      | _, _, _, _, _ => (s, "bad-op")
    else (s, "bad-op")
  | _ => (s, "bad-op")

def main : IO Unit := Drv.loop ({} : St) step
