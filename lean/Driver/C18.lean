import TlxVerif.Model.Drv
import TlxVerif.Model.C18Spec
import TlxVerif.Model.C18StringView
import TlxVerif.Model.C18Huge
open TlxVerif TlxVerif.C18

/-!
Line-protocol driver for C18 (see harness/c18.cpp for the op lines).
`t …` lines are answered by the model of tlx::StringView, `s …` lines by the
specification; both enumerate the same argument grids as the harness.
The forwarding overloads (`char`, `const char*`, `(const char*, pos, n)`) are the
one-line forwards of the header / the standard's "Equivalent to" clauses and are
expanded here for both sides.
-/

/-- the operations a side has to provide -/
structure Impl where
  compare : Bytes → Bytes → Int
  compare3 : Bytes → Nat → Nat → Bytes → Option Int
  compare5 : Bytes → Nat → Nat → Bytes → Nat → Nat → Option Int
  eq : Bytes → Bytes → Bool
  ne : Bytes → Bytes → Bool
  lt : Bytes → Bytes → Bool
  gt : Bytes → Bytes → Bool
  le : Bytes → Bytes → Bool
  ge : Bytes → Bytes → Bool
  eqStr : Bytes → Bytes → Bool      -- free operator== with std::string
  ltStr : Bytes → Bytes → Bool      -- free operator<  with std::string
  find : Bytes → Bytes → Nat → Nat
  rfind : Bytes → Bytes → Nat → Nat
  ffo : Bytes → Bytes → Nat → Nat
  flo : Bytes → Bytes → Nat → Nat
  ffno : Bytes → Bytes → Nat → Nat
  flno : Bytes → Bytes → Nat → Nat
  startsWith : Bytes → Bytes → Bool
  startsWithC : Bytes → UInt8 → Bool
  endsWith : Bytes → Bytes → Bool
  endsWithC : Bytes → UInt8 → Bool
  substr : Bytes → Nat → Nat → Option (Nat × Bytes)
  copy : Bytes → Nat → Nat → Option (Nat × Bytes)
  removePrefix : Bytes → Nat → Nat × Bytes
  removeSuffix : Bytes → Nat → Nat × Bytes
  at? : Bytes → Nat → Option UInt8
  front? : Bytes → Option UInt8
  back? : Bytes → Option UInt8

def modelImpl : Impl where
  compare := Model.compare
  compare3 := Model.compare3
  compare5 := Model.compare5
  eq := Model.eq
  ne := Model.ne
  lt := Model.lt
  gt := Model.gt
  le := Model.le
  ge := Model.ge
  eqStr := Model.eqStr
  ltStr := Model.ltStr
  find := Model.find
  rfind := Model.rfind
  ffo := Model.findFirstOf
  flo := Model.findLastOf
  ffno := Model.findFirstNotOf
  flno := Model.findLastNotOf
  startsWith := Model.startsWith
  startsWithC := Model.startsWithC
  endsWith := Model.endsWith
  endsWithC := Model.endsWithC
  substr := Model.substr
  copy := Model.copy
  removePrefix := Model.removePrefix
  removeSuffix := Model.removeSuffix
  at? := Model.at?
  front? := Model.front?
  back? := Model.back?

def specImpl : Impl where
  compare := Spec.compare
  compare3 := Spec.compare3
  compare5 := Spec.compare5
  eq := Spec.eq
  ne := Spec.ne
  lt := Spec.lt
  gt := Spec.gt
  le := Spec.le
  ge := Spec.ge
  eqStr := Spec.eq
  ltStr := Spec.lt
  find := Spec.find
  rfind := Spec.rfind
  ffo := Spec.findFirstOf
  flo := Spec.findLastOf
  ffno := Spec.findFirstNotOf
  flno := Spec.findLastNotOf
  startsWith := Spec.startsWith
  startsWithC := Spec.startsWithC
  endsWith := Spec.endsWith
  endsWithC := Spec.endsWithC
  substr := Spec.substr
  copy := Spec.copy
  removePrefix := Spec.removePrefix
  removeSuffix := Spec.removeSuffix
  at? := Spec.at?
  front? := fun h => h.head?
  back? := fun h => h.getLast?

/-! ### formatting (mirrors harness/c18.cpp) -/

def hexDigit (n : Nat) : Char := "0123456789abcdef".toList.getD n '?'

def hexByte (b : UInt8) : String := String.ofList [hexDigit (b.toNat / 16), hexDigit (b.toNat % 16)]

def hex (b : Bytes) : String := if b.isEmpty then "-" else String.join (b.map hexByte)

def hexVal (c : Char) : Option Nat :=
  if '0' ≤ c ∧ c ≤ '9' then some (c.toNat - '0'.toNat)
  else if 'a' ≤ c ∧ c ≤ 'f' then some (c.toNat - 'a'.toNat + 10)
  else if 'A' ≤ c ∧ c ≤ 'F' then some (c.toNat - 'A'.toNat + 10)
  else none

def parseHexList : List Char → Option Bytes
  | [] => some []
  | [_] => none
  | a :: b :: rest => do
    let x ← hexVal a
    let y ← hexVal b
    let r ← parseHexList rest
    pure (UInt8.ofNat (x * 16 + y) :: r)

def parseBytes (tok : String) : Option Bytes :=
  if tok = "-" ∨ tok = "null" then some [] else parseHexList tok.toList

def num (v : Nat) : String := if v = npos then "n" else toString v

def sgn (c : Int) : String := if c < 0 then "<" else if c > 0 then ">" else "="

def sgnO : Option Int → String
  | some c => sgn c
  | none => "X"

def bit (b : Bool) : String := if b then "1" else "0"

def grid (len : Nat) : List Nat := List.range (len + 2) ++ [npos]

def counts (g : List Nat) (outOfRange : Bool) : List Nat := if outOfRange then [0, npos] else g

def offHex : Option (Nat × Bytes) → String
  | some (o, b) => num o ++ ":" ++ hex b
  | none => "X"

def cat (l : List String) : String := String.join l

/-- the six relational operators for `a op b`, given the overload's own `==` and `<`
and the member operators the other four forward to -/
def six (eq ne lt gt le ge : Bool) : String := cat [bit eq, bit ne, bit lt, bit gt, bit le, bit ge]

def opCmp (I : Impl) (h n : Bytes) : String :=
  let z := cstr n
  cat ["c=", sgn (I.compare h n), " cz=", sgn (I.compare h z),
    " vv=", six (I.eq h n) (I.ne h n) (I.lt h n) (I.gt h n) (I.le h n) (I.ge h n),
    -- StringView op std::string: == and < are own code, != is !(a.operator==(b)), the rest go through StringView(y)
    " vs=", six (I.eqStr h n) (!I.eq h n) (I.ltStr h n) (I.gt h n) (I.le h n) (I.ge h n),
    " sv=", six (I.eqStr n h) (!I.eq h n) (I.ltStr n h) (I.gt n h) (I.le n h) (I.ge n h),
    " vz=", six (I.eq h z) (I.ne h z) (I.lt h z) (I.gt h z) (I.le h z) (I.ge h z),
    " zv=", six (I.eq z h) (I.ne z h) (I.lt z h) (I.gt z h) (I.le z h) (I.ge z h)]

def cmp3Entries (I : Impl) (h x : Bytes) : String :=
  let g := grid h.length
  cat (g.map fun p1 => cat ((counts g (p1 > h.length)).map fun n1 => sgnO (I.compare3 h p1 n1 x)))

def opCmp3 (I : Impl) (h n : Bytes) : String :=
  cat ["v=", cmp3Entries I h n, " z=", cmp3Entries I h (cstr n), " p=",
    cat ((List.range (n.length + 1)).map fun n2 => cmp3Entries I h (n.take n2) ++ ";")]

def opCmp5 (I : Impl) (h n : Bytes) : String :=
  let g := grid h.length
  let g2 := grid n.length
  "v=" ++ cat (g.map fun p1 =>
    cat ((counts g (p1 > h.length)).map fun n1 =>
      let ext1 := n1 = 0 ∨ n1 = npos
      cat (g2.map fun p2 =>
        if p1 > h.length ∧ p2 ≠ 0 ∧ p2 ≠ npos then ""
        else if p2 > n.length ∧ ¬ ext1 then ""
        else cat ((counts g2 (p1 > h.length ∨ p2 > n.length)).map fun n2 =>
          sgnO (I.compare5 h p1 n1 n p2 n2)))))

def opFamily (f : Bytes → Bytes → Nat → Nat) (dflt : Nat) (h n : Bytes) : String :=
  let g := grid h.length
  let row (x : Bytes) : String := cat (g.map fun pos => num (f h x pos) ++ ",")
  let c : Option Bytes := n.head?.map fun b => [b]
  cat ["v=", row n, " z=", row (cstr n), " c=", (match c with | some x => row x | none => "-"),
    " d=", num (f h n dflt), ",", num (f h (cstr n) dflt), ",",
    (match c with | some x => num (f h x dflt) | none => "-"),
    " p=", cat ((List.range (n.length + 1)).map fun n2 => row (n.take n2) ++ ";")]

def opSw (I : Impl) (h n : Bytes) : String :=
  cat ["sw=", bit (I.startsWith h n), (match n.head? with | some c => bit (I.startsWithC h c) | none => "-"),
    " ew=", bit (I.endsWith h n), (match n.head? with | some c => bit (I.endsWithC h c) | none => "-")]

def opSubstr (I : Impl) (h : Bytes) : String :=
  let g := grid h.length
  cat ["s=", cat (g.map fun pos => cat ((counts g (pos > h.length)).map fun n => offHex (I.substr h pos n) ++ ",")),
    " d=", cat (g.map fun pos => offHex (I.substr h pos npos) ++ ",")]

/-- destination buffer of `room` bytes, pre-filled with `?` -/
def dstBuf (room : Nat) (written : Bytes) : Bytes :=
  written.take room ++ List.replicate (room - written.length) 0x3f

def copyEntry (I : Impl) (h : Bytes) (n pos : Nat) : String :=
  let room := if pos ≤ h.length then min n (h.length - pos) else 0
  match I.copy h n pos with
  | some (r, w) => num r ++ ":" ++ hex (dstBuf room w)
  | none => "X"

def opCopy (I : Impl) (h : Bytes) : String :=
  let g := grid h.length
  cat ["c=", cat (g.map fun pos => cat ((counts g (pos > h.length)).map fun n => copyEntry I h n pos ++ ",")),
    " d=", cat (g.map fun n => copyEntry I h n 0 ++ ",")]

def opRm (I : Impl) (h : Bytes) : String :=
  let ns := List.range (h.length + 1)
  cat ["p=", cat (ns.map fun n => offHex (some (I.removePrefix h n)) ++ ","),
    " s=", cat (ns.map fun n => offHex (some (I.removeSuffix h n)) ++ ",")]

def byteO : Option UInt8 → String
  | some b => hexByte b
  | none => "X"

def opAcc (I : Impl) (h n : Bytes) : String :=
  cat ["at=", cat ((grid h.length).map fun i => byteO (I.at? h i) ++ ","),
    " ix=", hex h,
    " fb=", (if h.isEmpty then "u" else byteO (I.front? h) ++ byteO (I.back? h)),
    " str=", hex h, " ts=", hex h,
    " sz=", toString h.length, ",", toString h.length, ",", bit h.isEmpty,
    " it=", hex h, ",", hex h, " rit=", hex h.reverse, ",", hex h.reverse,
    " swap=", hex n, ",", hex h,
    " conv=", hex h, ",", hex (cstr n)]

def answer (I : Impl) (op : String) (h : Bytes) (n : Option Bytes) : Option String :=
  match op, n with
  | "substr", _ => some (opSubstr I h)
  | "copy", _ => some (opCopy I h)
  | "rm", _ => some (opRm I h)
  | "cmp", some n => some (opCmp I h n)
  | "cmp3", some n => some (opCmp3 I h n)
  | "cmp5", some n => some (opCmp5 I h n)
  | "find", some n => some (opFamily I.find 0 h n)
  | "rfind", some n => some (opFamily I.rfind npos h n)
  | "ffo", some n => some (opFamily I.ffo 0 h n)
  | "flo", some n => some (opFamily I.flo npos h n)
  | "ffno", some n => some (opFamily I.ffno 0 h n)
  | "flno", some n => some (opFamily I.flno npos h n)
  | "sw", some n => some (opSw I h n)
  | "acc", some n => some (opAcc I h n)
  | _, _ => none

/-! ### view tokens: `<hex>@off:len` = sub-view of a buffer, `@off:len` = view of the haystack's buffer -/

def parseOffLen (t : String) : Option (Nat × Nat) :=
  match t.splitOn ":" with
  | [a, b] => do
    if a.length > 20 ∨ b.length > 20 then none
    let x ← a.toNat?
    let y ← b.toNat?
    pure (x, y)
  | _ => none

/-- (buffer, view bytes) of a haystack token -/
def parseHay (tok : String) : Option (Bytes × Bytes) :=
  if tok = "null" then some ([], [])
  else match tok.splitOn "@" with
    | [h] => do let b ← parseBytes h; pure (b, b)
    | [h, ol] => do
      let b ← parseBytes h
      let (o, l) ← parseOffLen ol
      if o > b.length ∨ l > b.length - o then none else pure (b, (b.drop o).take l)
    | _ => none

def parseNeedle (buf : Bytes) (hayNull : Bool) (tok : String) : Option Bytes :=
  if tok.startsWith "@" then do
    if hayNull then none
    let (o, l) ← parseOffLen (tok.drop 1).toString
    if o > buf.length ∨ l > buf.length - o then none else pure ((buf.drop o).take l)
  else (parseHay tok).map (·.2)

/-! ### huge views (closed forms of Model/C18Huge.lean) -/

def parseHV (tok : String) : Option Huge.View := do
  let (o, l) ← parseOffLen tok
  if o > Huge.size ∨ l > Huge.size - o then none else pure ⟨o, l⟩

def parseCount (tok : String) : Option Nat :=
  if tok = "n" then some npos else if tok.length > 19 then none else tok.toNat?

def sixOfSign (c : Int) : String :=
  cat [bit (c == 0), bit (c != 0), bit (c < 0), bit (c > 0), bit (c ≤ 0), bit (c ≥ 0)]

def scanAnswer : Huge.Scan → Option String
  | .found x => some (num x)
  | .notFound => some "n"
  | .outside => none

def hugeAnswer (ts : List String) : Option String :=
  match ts with
  | [op, v, w] =>
    if op = "hcmp" ∨ op = "hcmpx" then do
      let v ← parseHV v; let w ← parseHV w
      let c ← Huge.compare v w (op = "hcmpx")
      pure (cat ["c=", sgn c, " vv=", sixOfSign c])
    else if op = "hrm" then do
      let v ← parseHV v; let n ← parseCount w
      if n > v.len then none
      else pure (cat [num n, ":", num (v.len - n), " ", "0:", num (v.len - n)])
    else if op = "hat" then do
      let v ← parseHV v; let pos ← parseCount w
      pure (cat ["at=", (if pos ≥ v.len then "X" else hexByte (Huge.mem (v.off + pos))),
        " ix=", (if pos < v.len then hexByte (Huge.mem (v.off + pos)) else "u"),
        " fb=", (if v.len = 0 then "u" else hexByte (Huge.mem v.off) ++ hexByte (Huge.mem (v.off + v.len - 1))),
        " sz=", num v.len, ",", num v.len, ",", bit (v.len == 0)])
    else if op = "hsw" then do
      let v ← parseHV v; let w ← parseHV w
      if w.len ≤ v.len then do
        let c1 ← Huge.compare ⟨v.off, w.len⟩ w false
        let c2 ← Huge.compare ⟨v.off + (v.len - w.len), w.len⟩ w false
        pure (cat ["sw=", bit (c1 == 0), " ew=", bit (c2 == 0)])
      else pure "sw=0 ew=0"
    else none
  | [op, v, a, b] =>
    if op = "hsub" then do
      let v ← parseHV v; let pos ← parseCount a; let n ← parseCount b
      match Huge.substr v pos n with
      | none => pure "X"
      | some r => pure (cat [num (r.off - v.off), ":", num r.len, ":", hex (Huge.bytesAt r 0 (min r.len 4))])
    else if op = "hcopy" then do
      let v ← parseHV v; let n ← parseCount a; let pos ← parseCount b
      if n > 32 then none
      else if pos > v.len then pure "X"
      else
        let room := min n (v.len - pos)
        pure (cat [num room, ":", hex (Huge.bytesAt v pos room)])
    else do
      let v ← parseHV v; let set ← parseBytes a; let pos ← parseCount b
      if set.length > 16 then none
      else match op with
        | "hfind" => scanAnswer (Huge.scanFwd v pos set 0)
        | "hffo" => scanAnswer (Huge.scanFwd v pos set 1)
        | "hffno" => scanAnswer (Huge.scanFwd v pos set 2)
        | "hrfind" => scanAnswer (Huge.scanBwd v pos set 0)
        | "hflo" => scanAnswer (Huge.scanBwd v pos set 1)
        | "hflno" => scanAnswer (Huge.scanBwd v pos set 2)
        | _ => none
  | ["hcmp3", v, p1, n1, w] => do
    let v ← parseHV v; let p1 ← parseCount p1; let n1 ← parseCount n1; let w ← parseHV w
    match Huge.substr v p1 n1 with
    | none => pure "c=X"
    | some r => do let c ← Huge.compare r w false; pure ("c=" ++ sgn c)
  | ["hcmp5", v, p1, n1, w, p2, n2] => do
    let v ← parseHV v; let p1 ← parseCount p1; let n1 ← parseCount n1; let w ← parseHV w
    let p2 ← parseCount p2; let n2 ← parseCount n2
    match Huge.substr v p1 n1, Huge.substr w p2 n2 with
    | some r1, some r2 => do let c ← Huge.compare r1 r2 false; pure ("c=" ++ sgn c)
    | _, _ => pure "c=X"
  | _ => none

def step (_ : Unit) (ts : List String) : Unit × String :=
  let r : Option String := do
    let (mode, rest) ← (match ts with
      | m :: rest => some (m, rest)
      | [] => none)
    let I ← (if mode = "t" then some modelImpl else if mode = "s" then some specImpl else none)
    match rest with
    | op :: _ =>
      if op.startsWith "h" then hugeAnswer rest
      else do
        let (ht, nt) ← (match rest with
          | [_, h] => some (h, none)
          | [_, h, n] => some (h, some n)
          | _ => none)
        let (buf, h) ← parseHay ht
        let n ← (match nt with
          | some t => (parseNeedle buf (ht = "null") t).map some
          | none => some none)
        answer I op h n
    | [] => none
  ((), r.getD "bad-op")

def main : IO Unit := Drv.loop () step
