import TlxVerif.Model.Drv
import TlxVerif.Model.C17Lru
import TlxVerif.Model.C17Splay
open TlxVerif TlxVerif.C17

/-- key universe of the harness: queries in -1 .. KU -/
def KU : Int := 12

inductive Kind where
  | none
  | lru (isMap : Bool) (c : Lru Int Int)
  | splay (dup : Bool) (rev : Bool) (s : ST)

structure St where
  kind : Kind := .none

def dumpLru (isMap : Bool) (c : Lru Int Int) : String :=
  let l := c.list.map fun e => if isMap then s!"{e.1}:{e.2}" else s!"{e.1}"
  let ks := c.keys.toArray.qsort (· < ·) |>.toList
  let m := ks.map fun k => s!"{k}>{k}"
  let dash (x : List String) := if x.isEmpty then "-" else ",".intercalate x
  s!"l={dash l} ; m={dash m}"

def keyOk (k : Int) : Bool := decide (-1 ≤ k ∧ k ≤ KU)

def stepLru (isMap : Bool) (c : Lru Int Int) (ts : List String) : St × String :=
  let fin (c' : Lru Int Int) (ret : String) : St × String :=
    ({ kind := .lru isMap c' }, s!"{ret} ; {dumpLru isMap c'}")
  let key (s : String) : Option Int := match s.toInt? with | some k => if keyOk k then some k else none | none => none
  match ts with
  | ["put", k] => match key k with | some k => fin (c.put k 0) "ok" | none => ({ kind := .lru isMap c }, "bad-op")
  | ["put", k, v] =>
    match key k, v.toInt? with
    | some k, some v => fin (c.put k (if isMap then v else 0)) "ok"
    | _, _ => ({ kind := .lru isMap c }, "bad-op")
  | [op, k] =>
    match key k with
    | none => ({ kind := .lru isMap c }, "bad-op")
    | some k =>
      match op with
      | "touch" => match c.touch k with | .ok c' => fin c' "ok" | .error _ => fin c "range_error"
      | "touchif" => let (c', r) := c.touchIfExists k; fin c' (if r then "1" else "0")
      | "erase" => match c.erase k with | .ok c' => fin c' "ok" | .error _ => fin c "range_error"
      | "eraseif" => let (c', r) := c.eraseIfExists k; fin c' (if r then "1" else "0")
      | "get" =>
        if !isMap then ({ kind := .lru isMap c }, "bad-op") else
        match c.get k with
        | .ok (some v) => fin c (toString v)
        | .ok none => fin c "DANGLING"
        | .error _ => fin c "range_error"
      | "gettouch" =>
        if !isMap then ({ kind := .lru isMap c }, "bad-op") else
        match c.getTouch k with
        | .ok (c', some v) => fin c' (toString v)
        | .ok (c', none) => fin c' "DANGLING"
        | .error _ => fin c "range_error"
      | "exists" => fin c (if c.exists k then "1" else "0")
      | _ => ({ kind := .lru isMap c }, "bad-op")
  | ["size"] => fin c (toString c.size)
  | ["pop"] =>
    match c.pop with
    | some (c', e) => fin c' (if isMap then s!"{e.1}:{e.2}" else s!"{e.1}")
    | none => ({ kind := .lru isMap c }, "bad-op")
  | ["clear"] => fin c.clear "ok"
  | _ => ({ kind := .lru isMap c }, "bad-op")

def showTree : Tree → String
  | .nil => "-"
  | .node l k r => s!"({showTree l} {k} {showTree r})"

def stepSplay (dup rev : Bool) (s : ST) (ts : List String) : St × String :=
  let lt : Int → Int → Bool := fun a b => if rev then decide (a > b) else decide (a < b)
  let fin (s' : ST) (ret : String) : St × String :=
    ({ kind := .splay dup rev s' }, s!"{ret} ; n={s'.size} ; t={showTree s'.root}")
  let bad : St × String := ({ kind := .splay dup rev s }, "bad-op")
  let b01 (b : Bool) := if b then "1" else "0"
  match ts with
  | [op, k] =>
    match k.toInt? with
    | none => bad
    | some k =>
      if !keyOk k then bad else
      match op with
      | "insert" => let (s', r) := s.insert lt dup k; fin s' (b01 r)
      | "erase" => let (s', r) := s.erase lt k; fin s' (b01 r)
      | "exists" => let (s', r) := s.exists lt k; fin s' (b01 r)
      | "find" => let (s', r) := s.find lt k; fin s' (match r with | some x => toString x | none => "null")
      | _ => bad
  | ["size"] => fin s (toString s.size)
  | ["empty"] => fin s (b01 (s.size == 0))
  | ["clear"] => fin s.clear "ok"
  | ["trav"] => fin s ("[" ++ ",".intercalate (s.root.inorder.map toString) ++ "]")
  | ["check"] => fin s (b01 (s.check lt))
  | ["checkneg"] =>
    -- the harness moves the key of a child of the root by ±100 to the wrong side and asks check()
    match s.root with
    | .node (.node a _ b) x r =>
      let bad' := Tree.node (.node a (if rev then x - 100 else x + 100) b) x r
      if s.size < 2 then bad else fin s (b01 ((splayCheck lt bad').isSome))
    | .node .nil x (.node a _ b) =>
      let bad' := Tree.node .nil x (.node a (if rev then x + 100 else x - 100) b)
      if s.size < 2 then bad else fin s (b01 ((splayCheck lt bad').isSome))
    | _ => bad
  | _ => bad

def step (s : St) (ts : List String) : St × String :=
  match ts with
  | ["cfg", "lruset"] => ({ kind := .lru false {} }, "ok")
  | ["cfg", "lrumap"] => ({ kind := .lru true {} }, "ok")
  -- the key type (int / std::string / move-sensitive struct) does not change the model
  | ["cfg", "lruset", kt] =>
    if kt = "int" ∨ kt = "str" ∨ kt = "mk" then ({ kind := .lru false {} }, "ok") else ({ kind := .none }, "bad-op")
  | ["cfg", "lrumap", kt] =>
    if kt = "int" ∨ kt = "str" ∨ kt = "mk" then ({ kind := .lru true {} }, "ok") else ({ kind := .none }, "bad-op")
  | ["cfg", "splay", v, c] =>
    if (v = "set" ∨ v = "multi") ∧ (c = "less" ∨ c = "greater") then
      ({ kind := .splay (v = "multi") (c = "greater") {} }, "ok")
    else ({ kind := .none }, "bad-op")
  | ["cfg", "splay", v, c, kt] =>
    if (v = "set" ∨ v = "multi") ∧ (c = "less" ∨ c = "greater") ∧ (kt = "int" ∨ kt = "mk") then
      ({ kind := .splay (v = "multi") (c = "greater") {} }, "ok")
    else ({ kind := .none }, "bad-op")
  | "cfg" :: _ => ({ kind := .none }, "bad-op")
  | _ =>
    match s.kind with
    | .none => (s, "bad-op")
    | .lru m c => stepLru m c ts
    | .splay d r t => stepSplay d r t ts

def main : IO Unit := Drv.loop ({} : St) step
