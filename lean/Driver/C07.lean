import TlxVerif.Model.Drv
import TlxVerif.Model.C07Pmm
open TlxVerif TlxVerif.C07

def intCsv (s : String) : Option (List Int) :=
  if s = "-" then some [] else (s.splitOn ",").mapM String.toInt?

def showIntCsv (l : List Int) : String :=
  if l.isEmpty then "-" else ",".intercalate (l.map toString)

def showNatCsv (l : List Nat) : String :=
  if l.isEmpty then "-" else ",".intercalate (l.map toString)

def showElems (l : List Elem) : String :=
  if l.isEmpty then "-" else ",".intercalate (l.map fun e => s!"{e.key}:{e.seq}:{e.pos}")

def parseCmp : String → Option C08.Cmp
  | "lt" => some .lt
  | "gt" => some .gt
  | "half" => some .half
  | _ => none

def sortedBy (lt : Int → Int → Bool) : List Int → Bool
  | [] => true
  | [_] => true
  | x :: y :: r => !lt y x && sortedBy lt (y :: r)

/-- IEEE double computation of the sample index, as in multiway_merge_sampling_splitting -/
def sampleIdxFloat (len i ns size total : Nat) : Nat :=
  let x : Float := Float.ofNat len * (Float.ofNat (i + 1) / Float.ofNat (ns + 1)) *
    (Float.ofNat size / Float.ofNat total)
  x.toUInt64.toNat

def insertTag (x : Elem) : List Elem → List Elem
  | [] => [x]
  | y :: ys => if y.seq < x.seq || (y.seq == x.seq && y.pos < x.pos) then y :: insertTag x ys else x :: y :: ys

/-- canonical order inside runs of equivalent keys (unstable variants): by (seq, pos) -/
partial def canon (lt : Int → Int → Bool) (l : List Elem) : List Elem :=
  match l with
  | [] => []
  | x :: _ =>
    let grp := l.takeWhile (fun y => !lt x.key y.key && !lt y.key x.key)
    let rest := l.drop grp.length
    grp.foldr insertTag [] ++ canon lt rest

def showWindows (r : Result) : String :=
  let ws := r.windows.filter (fun w => w.2 > 0)
  if ws.isEmpty then "-" else
    ",".intercalate (ws.map fun (tp, len) => (if r.parallel then "" else "m") ++ s!"{tp}+{len}")

def stepOpt (ts : List String) : Option String :=
  match ts with
  | ["es", n, p] => do
    let n ← n.toInt?; let p ← p.toNat?
    if n < 0 || p < 1 then pure "bad-op" else
    pure s!"es {showIntCsv (equallySplit n p)}"
  | "pm" :: variant :: cmp :: split :: threads :: osf :: algo :: force :: mink :: minn :: size :: runs => do
    let cmp ← parseCmp cmp
    let threads ← threads.toNat?; let osf ← osf.toNat?
    let mink ← mink.toNat?; let minn ← minn.toNat?; let size ← size.toNat?
    let runs ← runs.mapM intCsv
    let stable := variant == "s" || variant == "ss"
    if !(["u", "s", "us", "ss"].contains variant) || !(["exact", "sampling"].contains split) ||
       !(["lt", "ltc", "lts", "bubble"].contains algo) || !(["par", "seq", "auto"].contains force) then none else
    let total := (runs.map List.length).sum
    if threads < 1 || threads > 64 || osf < 1 || osf > 64 || size > total then pure "bad-op" else
    if runs.any (fun r => !sortedBy cmp.fn r) then pure "bad-op" else
    let seqs : List (List Elem) := (List.range runs.length).map fun s =>
      let r := runs.getD s []
      (List.range r.length).map fun p => ⟨r.getD p 0, s, p⟩
    let P : Params := { lt := cmp.fn, stable := stable, exact := split == "exact", threads := threads,
                        osf := osf, sampleIdx := sampleIdxFloat }
    match pmm P (force == "seq") (force == "par") mink minn seqs size with
    | .error e => pure s!"model-failure {e}"
    | .ok r =>
      let out := if stable then r.out else canon cmp.fn r.out
      -- run-time validation of the model against the specification it is proved about
      -- (Props/C07.lean: first `size` elements of the stable k-merge; stable variants: begins = their counts)
      let spec := kMergeTake cmp.fn seqs size
      let specOut := if stable then spec else canon cmp.fn spec
      let counts : List Nat := (List.range seqs.length).map fun i => (spec.filter (fun e => e.seq == i)).length
      let okSpec := out == specOut && r.ret == (size : Int) && ((!r.parallel && !stable) || r.begins == counts)
      pure s!"out {showElems out} ret {r.ret} begins {showNatCsv r.begins} win {showWindows r} spec {if okSpec then 1 else 0}"
  -- std::string keys (move-sensitive element type): same model, keys only
  | "pmstr" :: variant :: cmp :: split :: threads :: osf :: algo :: force :: mink :: minn :: size :: runs => do
    let cmp ← parseCmp cmp
    let threads ← threads.toNat?; let osf ← osf.toNat?
    let mink ← mink.toNat?; let minn ← minn.toNat?; let size ← size.toNat?
    let runs ← runs.mapM intCsv
    let stable := variant == "s"
    if !(["u", "s"].contains variant) || !(["exact", "sampling"].contains split) || cmp == .half ||
       !(["lt", "ltc", "lts", "bubble"].contains algo) || !(["par", "seq", "auto"].contains force) then none else
    let total := (runs.map List.length).sum
    if threads < 1 || threads > 64 || osf < 1 || osf > 64 || size > total then pure "bad-op" else
    if runs.any (fun r => r.any (· < 0) || !sortedBy cmp.fn r) then pure "bad-op" else
    let seqs : List (List Elem) := (List.range runs.length).map fun s =>
      let r := runs.getD s []
      (List.range r.length).map fun p => ⟨r.getD p 0, s, p⟩
    let P : Params := { lt := cmp.fn, stable := stable, exact := split == "exact", threads := threads,
                        osf := osf, sampleIdx := sampleIdxFloat }
    match pmm P (force == "seq") (force == "par") mink minn seqs size with
    | .error e => pure s!"model-failure {e}"
    | .ok r => pure s!"out {showIntCsv (r.out.map (·.key))} ret {r.ret} begins {showNatCsv r.begins}"
  -- front ends called without a comparator: the order is `<` of the INPUT value type, whatever the output type
  | "pmd" :: front :: types :: force :: size :: runs => do
    let size ← size.toNat?
    let runs ← runs.mapM intCsv
    if !(["pm", "spm", "pms", "spms", "mm", "smm", "mms", "smms"].contains front) ||
       !(["iu", "il", "st"].contains types) then none else
    let total := (runs.map List.length).sum
    let lt : Int → Int → Bool := fun a b => a < b
    if !(["par", "seq"].contains force) || size > total then pure "bad-op" else
    if runs.any (fun r => r.any (fun x => x < -1000000 || x > 1000000) || !sortedBy lt r) then pure "bad-op" else
    let seqs : List (List Elem) := (List.range runs.length).map fun s =>
      let r := runs.getD s []
      (List.range r.length).map fun p => ⟨r.getD p 0, s, p⟩
    let stable := front.startsWith "s"
    let sequential := front.startsWith "mm" || front.startsWith "smm" || force == "seq"
    -- defaults of the API: exact splitting, oversampling 10; the thread count (hardware concurrency) does not
    -- influence the modelled result of the stable variants (Props/C07: equal to the sequential merge)
    let P : Params := { lt := lt, stable := stable, exact := true, threads := 4, osf := 10, sampleIdx := sampleIdxFloat }
    match pmm P sequential (!sequential) 2 1000 seqs size with
    | .error e => pure s!"model-failure {e}"
    | .ok r => pure s!"out {showIntCsv (r.out.map (·.key))} ret {r.ret} begins {showNatCsv r.begins}"
  | _ => none

def step (_ : Unit) (ts : List String) : Unit × String :=
  match stepOpt ts with
  | some s => ((), s)
  | none => ((), "bad-op")

def main : IO Unit := Drv.loop () step
