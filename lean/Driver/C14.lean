import TlxVerif.Model.Drv
import TlxVerif.Model.C14Spec
import TlxVerif.Model.C14Digests
import TlxVerif.Model.C14SipHash
open TlxVerif TlxVerif.C14

/-! Line-protocol driver of the C14 models (see harness/c14.cpp for the protocol).
    Answers `<model result> | <model trace> # spec=<specification digest>`. -/

def hexDigitVal (c : Char) : Option Nat :=
  if '0' ≤ c ∧ c ≤ '9' then some (c.toNat - '0'.toNat)
  else if 'a' ≤ c ∧ c ≤ 'f' then some (c.toNat - 'a'.toNat + 10) else none

def unhex (s : String) : Option Bytes :=
  if s = "-" then some [] else
  let rec go : List Char → Option Bytes
    | [] => some []
    | a :: b :: r => do
        let x ← hexDigitVal a; let y ← hexDigitVal b; let t ← go r
        pure (BitVec.ofNat 8 (16 * x + y) :: t)
    | _ => none
  go s.toList

/-- the driver's own lower-case hex (independent of the generated digit tables) -/
def hexOf (bs : Bytes) : String :=
  String.ofList (bs.flatMap fun b =>
    let d := fun (n : Nat) => Char.ofNat (if n < 10 then 48 + n else 87 + n)
    [d (b.toNat / 16), d (b.toNat % 16)])

def hexWord {w : Nat} (x : BitVec w) : String := hexOf (beBytes (w / 8) x)

def splitChunks : List Nat → Bytes → List Bytes
  | [], _ => []
  | n :: ns, m => m.take n :: splitChunks ns (m.drop n)

def traceOf {w : Nat} (c : Ctx (List (BitVec w))) : String :=
  let buffered := c.buf.take c.curlen
  s!"{c.curlen}:{c.length.toNat}:{String.join (c.state.map hexWord)}:{if c.curlen = 0 then "-" else hexOf buffered}"

/-- one object life in the model: result bytes and the trace -/
def runClass {w : Nat} (P : Params (List (BitVec w))) (skipFirstTrace sv : Bool) (chunks : List Bytes) :
    Bytes × String :=
  let c0 := P.new (List.replicate P.blockSize 0xEE#8)
  let (c, tr) := chunks.foldl (fun (acc : Ctx (List (BitVec w)) × List String) ch =>
      let c := if sv then processSV P acc.1 ch else process P acc.1 ch
      (c, acc.2 ++ [traceOf c])) (c0, [traceOf c0])
  let tr := if skipFirstTrace then tr.drop 1 else tr
  ((finalize P c).1, ";".intercalate tr)

def digestLine (algo form : String) (sizes : List Nat) (msg : Bytes) : Option String := do
  let chunks := splitChunks sizes msg
  let (pre, out) := match form.splitOn "-" with
    | [o] => ("", o)
    | [p, o] => (p, o)
    | _ => ("?", "?")
  let isFn := pre = "fn" || pre = "fnsv"
  if !(["", "sv", "ctor", "ctorsv", "fn", "fnsv"].contains pre) then none
  if isFn && !(out = "hex" || out = "HEX") then none
  if !isFn && !(["raw", "hex", "HEX", "fin"].contains out) then none
  if (pre = "ctor" || pre = "ctorsv") && chunks.isEmpty then none
  let chunks := if isFn then [msg] else chunks
  let skip := pre = "ctor" || pre = "ctorsv"
  let sv := pre = "sv" || pre = "ctorsv" || pre = "fnsv"
  let (dig, tr, spec) ← match algo with
    | "md5" => let r := runClass Model.MD5.params skip sv chunks; some (r.1, r.2, Spec.MD5.hash msg)
    | "sha1" => let r := runClass Model.SHA1.params skip sv chunks; some (r.1, r.2, Spec.SHA1.hash msg)
    | "sha256" => let r := runClass Model.SHA256.params skip sv chunks; some (r.1, r.2, Spec.SHA256.hash msg)
    | "sha512" => let r := runClass Model.SHA512.params skip sv chunks; some (r.1, r.2, Spec.SHA512.hash msg)
    | _ => none
  let res := if out = "hex" then Model.hexLower dig else if out = "HEX" then Model.hexUpper dig else hexOf dig
  pure s!"{res} | {if isFn then "-" else tr} # spec={hexOf spec}"

def sipLine (variant : String) (key msg : Bytes) : Option String := do
  if key.length ≠ 16 then none
  let defkey := key == Gen.sipDefaultKey
  let r ← match variant with
    | "plain" => some (Model.Sip.siphashPlain key msg)
    | "sse2" | "auto" => some (Model.Sip.siphashSSE2 key msg)     -- x86-64: __SSE2__ is defined
    | "dk" | "dkc" | "sv" => if defkey then some (Model.Sip.siphashSSE2 Gen.sipDefaultKey msg) else none
    | _ => none
  pure s!"{hexWord r} # spec={hexWord (Spec.SipHash.hash key msg)}"

def step (_ : Unit) (ts : List String) : Unit × String :=
  let r : Option String :=
    match ts with
    | ["d", algo, form, _expected, sizes, msg] => do
        let sizes ← Drv.natCsv sizes
        let msg ← unhex msg
        if sizes.foldl (· + ·) 0 ≠ msg.length then none
        digestLine algo form sizes msg
    | ["sip", variant, _expected, ka, key, ma, msg] => do
        let ka ← ka.toNat?; let ma ← ma.toNat?
        if ka > 15 || ma > 15 then none
        let key ← unhex key; let msg ← unhex msg
        sipLine variant key msg
    | _ => none
  ((), r.getD "bad-op")

def main : IO Unit := Drv.loop () step
