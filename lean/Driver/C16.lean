import TlxVerif.Model.Drv
import TlxVerif.Model.C16RingBuffer
import TlxVerif.Model.C16SimpleVector
open TlxVerif TlxVerif.C16

/-- three RingBuffer registers (none = no object) and three SimpleVector registers -/
structure St where
  rb : List (Option RB) := [none, none, none]
  sv : List (Option SV) := [none, none, none]

def dumpRB : Option RB → String
  | none => "-"
  | some r =>
    let alive := String.ofList (r.slots.map fun s => if s.isSome then '1' else '0')
    let vals := (List.range r.size).map fun i =>
      match r.at? i with | some v => toString v | none => "!"
    s!"max={r.maxSize} cap={r.cap} mask={r.mask} data={if r.hasData then 1 else 0} b={r.b} e={r.e} alive=[{alive}] vals=[{",".intercalate vals}]"

def dumpAll (s : St) : String := " ; ".intercalate (s.rb.map dumpRB)

def getR (s : St) (i : Nat) : Option RB := (s.rb[i]?).join
def setR (s : St) (i : Nat) (r : Option RB) : St := { s with rb := s.rb.set i r }

def showOpt : Option Elem → String
  | some v => toString v
  | none => "!"

def ans (s : St) (ret : String) : St × String := (s, s!"{ret} ; {dumpAll s}")

def stepRB (s : St) (ts : List String) : Option (St × String) :=
  match ts with
  | ["new", r, m] => do
      let r ← r.toNat?; let m ← m.toNat?
      pure (ans (setR s r (some (RB.new m))) "ok")
  | [op, r, v] => do
      let r ← r.toNat?
      match op with
      | "pushb" | "emplb" => do
          let v ← v.toInt?; let x ← getR s r
          match x.pushBack v with
          | some x' => pure (ans (setR s r x') "ok")
          | none => pure (s, "LIFETIME-ERROR")
      | "pushf" | "emplf" => do
          let v ← v.toInt?; let x ← getR s r
          match x.pushFront v with
          | some x' => pure (ans (setR s r x') "ok")
          | none => pure (s, "LIFETIME-ERROR")
      | "at" => do
          let i ← v.toNat?; let x ← getR s r
          pure (ans s (showOpt (x.at? i)))
      | "alloc" => do
          let m ← v.toNat?; let x ← getR s r
          pure (ans (setR s r (some (x.allocate m))) "ok")
      | "copyctor" => do
          let src ← v.toNat?; let x ← getR s src
          match x.copyCtor with
          | some y => pure (ans (setR s r (some y)) "ok")
          | none => pure (s, "LIFETIME-ERROR")
      | "movector" => do
          let src ← v.toNat?; let x ← getR s src
          let (y, x') := x.moveCtor
          pure (ans (setR (setR s r (some y)) src (some x')) "ok")
      | "assign" => do
          let src ← v.toNat?; let x ← getR s src; let d ← getR s r
          if src = r then pure (ans s "ok") else
          match d.copyAssign x with
          | some y => pure (ans (setR s r (some y)) "ok")
          | none => pure (s, "LIFETIME-ERROR")
      | "massign" => do
          let src ← v.toNat?; let x ← getR s src; let d ← getR s r
          if src = r then pure (ans s "ok") else
          match d.moveAssign x with
          | some (y, x') => pure (ans (setR (setR s r (some y)) src (some x')) "ok")
          | none => pure (s, "LIFETIME-ERROR")
      | _ => none
  | [op, r] => do
      let r ← r.toNat?
      let x ← getR s r
      let upd (o : Option RB) : Option (St × String) :=
        match o with
        | some x' => pure (ans (setR s r (some x')) "ok")
        | none => pure (s, "LIFETIME-ERROR")
      match op with
      | "popf" => upd x.popFront
      | "popb" => upd x.popBack
      | "clear" => upd x.clear
      | "dealloc" => upd x.deallocate
      | "front" => pure (ans s (showOpt x.front?))
      | "back" => pure (ans s (showOpt x.back?))
      | "size" => pure (ans s (toString x.size))
      | "empty" => pure (ans s (if x.empty then "1" else "0"))
      | "copyto" =>
          match x.toList? with
          | some l => pure (ans s ("[" ++ ",".intercalate (l.map toString) ++ "]"))
          | none => pure (s, "LIFETIME-ERROR")
      | "moveto" =>
          match x.toList?, x.clear with
          | some l, some x' => pure (ans (setR s r (some x')) ("[" ++ ",".intercalate (l.map toString) ++ "]"))
          | _, _ => pure (s, "LIFETIME-ERROR")
      | "dtor" =>
          match x.dtor with
          | some 0 => pure (ans (setR s r none) "ok")
          | some n => pure (setR s r none, s!"LEAK {n}")
          | none => pure (s, "LIFETIME-ERROR")
      | _ => none
  | _ => none

def step (s : St) (ts : List String) : St × String :=
  match ts with
  | "sv" :: rest =>
      match stepSV s.sv rest with
      | some (sv', out) => ({ s with sv := sv' }, out)
      | none => (s, "bad-op")
  | _ =>
      match stepRB s ts with
      | some r => r
      | none => (s, "bad-op")

def main : IO Unit := Drv.loop ({} : St) step
