import TlxVerif.Model.Drv
import TlxVerif.Model.C16Machine
import TlxVerif.Model.C16SimpleVector
open TlxVerif TlxVerif.C16

/-- three RingBuffer registers (none = no object) and three SimpleVector registers -/
structure St where
  rb : List (Option RB) := [none, none, none]
  sv : List (Option SV) := [none, none, none]

def dumpRB : Option RB → String
  | none => "-"
  | some r =>
    let alive := String.ofList (r.slots.map fun s => if s.isSome then '1' else '0')
    let vals := (List.range r.size).map fun i =>
      match r.at? i with | some v => toString v | none => "!"
    s!"max={r.maxSize} cap={r.cap} mask={r.mask} data={if r.hasData then 1 else 0} b={r.b} e={r.e} alive=[{alive}] vals=[{",".intercalate vals}]"

def dumpAll (s : St) : String := " ; ".intercalate (s.rb.map dumpRB)

def getR (s : St) (i : Nat) : Option RB := (s.rb[i]?).join
def setR (s : St) (i : Nat) (r : Option RB) : St := { s with rb := s.rb.set i r }

def showOpt : Option Elem → String
  | some v => toString v
  | none => "!"

def ans (s : St) (ret : String) : St × String := (s, s!"{ret} ; {dumpAll s}")

/-- protocol line → typed operation of `Model/C16Machine.lean` -/
def parseOp (ts : List String) : Option Op :=
  match ts with
  | ["new", r, m] => do pure (.new (← r.toNat?) (← m.toNat?))
  | ["pushb", r, v] | ["emplb", r, v] => do pure (.pushB (← r.toNat?) (← v.toInt?))
  | ["pushf", r, v] | ["emplf", r, v] => do pure (.pushF (← r.toNat?) (← v.toInt?))
  | ["popf", r] => do pure (.popF (← r.toNat?))
  | ["popb", r] => do pure (.popB (← r.toNat?))
  | ["clear", r] => do pure (.clear (← r.toNat?))
  | ["front", r] => do pure (.front (← r.toNat?))
  | ["back", r] => do pure (.back (← r.toNat?))
  | ["at", r, i] => do pure (.at (← r.toNat?) (← i.toNat?))
  | ["size", r] => do pure (.size (← r.toNat?))
  | ["empty", r] => do pure (.empty (← r.toNat?))
  | ["copyto", r] => do pure (.copyTo (← r.toNat?))
  | ["moveto", r] => do pure (.moveTo (← r.toNat?))
  | ["alloc", r, m] => do pure (.alloc (← r.toNat?) (← m.toNat?))
  | ["dealloc", r] => do pure (.dealloc (← r.toNat?))
  | ["copyctor", r, s] => do pure (.copyCtor (← r.toNat?) (← s.toNat?))
  | ["movector", r, s] => do pure (.moveCtor (← r.toNat?) (← s.toNat?))
  | ["assign", r, s] => do pure (.assign (← r.toNat?) (← s.toNat?))
  | ["massign", r, s] => do pure (.moveAssign (← r.toNat?) (← s.toNat?))
  | ["dtor", r] => do pure (.dtor (← r.toNat?))
  | _ => none

def showOut : Out → String
  | .ok => "ok"
  | .val v => showOpt v
  | .num n => toString n
  | .bool b => if b then "1" else "0"
  | .list l => "[" ++ ",".intercalate (l.map toString) ++ "]"
  | .leak n => s!"LEAK {n}"

def stepRB (s : St) (ts : List String) : Option (St × String) := do
  let op ← parseOp ts
  match stepOp s.rb op with
  | some (rb', out) => pure (ans { s with rb := rb' } (showOut out))
  | none => pure (s, "LIFETIME-ERROR")

def step (s : St) (ts : List String) : St × String :=
  match ts with
  | "sv" :: rest =>
      match stepSV s.sv rest with
      | some (sv', out) => ({ s with sv := sv' }, out)
      | none => (s, "bad-op")
  | _ =>
      match stepRB s ts with
      | some r => r
      | none => (s, "bad-op")

def main : IO Unit := Drv.loop ({} : St) step
