import TlxVerif.Model.Drv
import TlxVerif.Model.C08Msp
import TlxVerif.Proofs.C08Checker
import TlxVerif.Proofs.C08Inv
open TlxVerif TlxVerif.C08

def intCsv (s : String) : Option (List Int) :=
  if s = "-" then some [] else (s.splitOn ",").mapM String.toInt?

def showIntCsv (l : List Int) : String :=
  if l.isEmpty then "-" else ",".intercalate (l.map toString)

def showTrace (t : Array (Nat × Int)) : String :=
  if t.isEmpty then "-" else ",".intercalate (t.toList.map fun (s, i) => s!"{s}:{i}")

def parseCmp : String → Option Cmp
  | "lt" => some .lt
  | "gt" => some .gt
  | "half" => some .half
  | _ => none

def sortedBy (lt : Int → Int → Bool) : List Int → Bool
  | [] => true
  | [_] => true
  | x :: y :: r => !lt y x && sortedBy lt (y :: r)

def stepOpt (ts : List String) : Option String :=
  match ts with
  | op :: cmp :: rank :: runs => do
    let cmp ← parseCmp cmp
    let rank ← rank.toInt?
    let runs ← runs.mapM intCsv
    if runs.isEmpty || runs.any (·.isEmpty) || rank < 0 then pure "bad-op" else
    if runs.any (fun r => !sortedBy cmp.fn r) then pure "bad-op" else
    let c : Ctx := { lt := cmp.fn, runs := (runs.map List.toArray).toArray }
    let n := totalLen c
    match op with
    | "part" =>
      if rank.toNat > n then pure "bad-op" else
      match runM (partitionM c rank.toNat) with
      | .ok (offs, tr) =>
        -- certificate: the proved-sound checker (Proofs/C08Checker.lean) run on this very result
        -- … and the loop invariant of the refinement (Proofs/C08Inv.lean) evaluated at every intermediate state
        let cert := offs.toList.all (fun x => decide (0 ≤ x)) &&
          checkPartition cmp.fn runs rank.toNat (offs.toList.map Int.toNat) &&
          (rank.toNat == n || checkRun c .partition rank.toNat)
        pure s!"offs {showIntCsv offs.toList} cert {if cert then 1 else 0} tr {showTrace tr}"
      | .error e => pure s!"model-failure {e}"
    | "sel" =>
      if rank.toNat ≥ n then pure "bad-op" else
      match runM (selectionM c rank.toNat) with
      | .ok ((v, off), tr) =>
        if checkRun c .selection rank.toNat then pure s!"val {v} off {off} tr {showTrace tr}"
        else pure s!"val {v} off {off} tr {showTrace tr} INVARIANT-VIOLATED"
      | .error e => pure s!"model-failure {e}"
    | _ => none
  | _ => none

def step (_ : Unit) (ts : List String) : Unit × String :=
  match stepOpt ts with
  | some s => ((), s)
  | none => ((), "bad-op")

def main : IO Unit := Drv.loop () step
