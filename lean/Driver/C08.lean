import TlxVerif.Model.Drv
import TlxVerif.Model.C08Msp
import TlxVerif.Proofs.C08Checker
import TlxVerif.Proofs.C08Inv
open TlxVerif TlxVerif.C08

def intCsv (s : String) : Option (List Int) :=
  if s = "-" then some [] else (s.splitOn ",").mapM String.toInt?

def showIntCsv (l : List Int) : String :=
  if l.isEmpty then "-" else ",".intercalate (l.map toString)

def showTrace (t : Array (Nat × Int)) : String :=
  if t.isEmpty then "-" else ",".intercalate (t.toList.map fun (s, i) => s!"{s}:{i}")

def parseCmp : String → Option Cmp
  | "lt" => some .lt
  | "gt" => some .gt
  | "half" => some .half
  | _ => none

def sortedBy (lt : Int → Int → Bool) : List Int → Bool
  | [] => true
  | [_] => true
  | x :: y :: r => !lt y x && sortedBy lt (y :: r)

/-- answer of one partition / selection call -/
def answer (op : String) (cmp : Cmp) (rank : Int) (runs : List (List Int)) : String :=
  if runs.isEmpty || runs.any (·.isEmpty) || rank < 0 then "bad-op" else
  if runs.any (fun r => !sortedBy cmp.fn r) then "bad-op" else
  let c : Ctx := { lt := cmp.fn, runs := (runs.map List.toArray).toArray }
  let n := totalLen c
  if op == "part" then
    if rank.toNat > n then "bad-op" else
    match runM (partitionM c rank.toNat) with
    | .ok (offs, tr) =>
      -- certificate: the proved-sound checker (Proofs/C08Checker.lean) run on this very result
      -- … and the loop invariant of the refinement (Proofs/C08Inv.lean) evaluated at every intermediate state
      let cert := offs.toList.all (fun x => decide (0 ≤ x)) &&
        checkPartition cmp.fn runs rank.toNat (offs.toList.map Int.toNat) &&
        (rank.toNat == n || checkRun c .partition rank.toNat)
      s!"offs {showIntCsv offs.toList} cert {if cert then 1 else 0} tr {showTrace tr}"
    | .error e => s!"model-failure {e}"
  else
    if rank.toNat ≥ n then "bad-op" else
    match runM (selectionM c rank.toNat) with
    | .ok ((v, off), tr) =>
      if checkRun c .selection rank.toNat then s!"val {v} off {off} tr {showTrace tr}"
      else s!"val {v} off {off} tr {showTrace tr} INVARIANT-VIOLATED"
    | .error e => s!"model-failure {e}"

/-- the runs loaded by `load` (the rank type of `p`/`s` does not exist in the model: ranks are naturals) -/
abbrev St := Option (Cmp × List (List Int))

def rankTypes : List String := ["long", "int", "llong", "size_t", "uint", "ushort"]

def stepOpt (st : St) (ts : List String) : Option (St × String) :=
  match ts with
  | "load" :: cmp :: runs => do
    let cmp ← parseCmp cmp
    let runs ← runs.mapM intCsv
    if runs.isEmpty || runs.any (·.isEmpty) || runs.any (fun r => !sortedBy cmp.fn r) then pure (st, "bad-op")
    else pure (some (cmp, runs), s!"loaded {runs.length}")
  | [op, rt, rank] =>
    if op != "p" && op != "s" then none else
    match st with
    | none => pure (st, "bad-op")
    | some (cmp, runs) => do
      let rank ← rank.toInt?
      if !rankTypes.contains rt then pure (st, "bad-op") else
      if rt == "ushort" && (runs.map List.length).sum > 60000 then pure (st, "bad-op") else
      pure (st, answer (if op == "p" then "part" else "sel") cmp rank runs)
  | op :: cmp :: rank :: runs =>
    if op != "part" && op != "sel" then none else do
    let cmp ← parseCmp cmp
    let rank ← rank.toInt?
    let runs ← runs.mapM intCsv
    pure (st, answer op cmp rank runs)
  | _ => none

def step (st : St) (ts : List String) : St × String :=
  match stepOpt st ts with
  | some r => r
  | none => (st, "bad-op")

def main : IO Unit := Drv.loop (none : St) step
