import TlxVerif.Model.Drv
import TlxVerif.Model.C10Sched
import TlxVerif.Model.C10Pool
open TlxVerif TlxVerif.C10

/-- scenario under construction + the resolved schedule of the last run -/
structure St where
  nworkers : Nat := 0
  initYields : Nat := 0
  jobs : List (Nat × List Act) := []
  dtors : List (Nat × List Act) := []
  clients : List (List Act) := []
  mainCalls : List Act := []
  lastResolved : Array Nat := #[]

def parseCode (s : String) : Option Nat :=
  if s.length ≥ 1 ∧ s.length ≤ 3 ∧ s.all Char.isDigit then s.toNat? else none

def parseAct (inJob : Bool) (tok : String) : Option Act :=
  if tok = "t" then some .term
  else if tok = "d" then some .obsDone
  else if tok = "i" then some .obsIdle
  else if inJob && tok = "x" then some .throw
  else if !inJob && tok = "w" then some .lue
  else if !inJob && tok = "u" then some .lut
  else if tok.startsWith "e" then (parseCode (tok.drop 1).toString).map .enq
  else none

def cfgOf (s : St) : Cfg :=
  { nworkers := s.nworkers, initYields := s.initYields,
    prog := fun code => ((s.jobs.reverse.find? (·.1 == code)).map (·.2)).getD [],
    dprog := fun code => ((s.dtors.reverse.find? (·.1 == code)).map (·.2)).getD [],
    clients := s.clients, mainCalls := s.mainCalls }

def countOcc (l : List Nat) (x : Nat) : Nat := (l.filter (· == x)).length

def doRun (s : St) (ts : List String) : St × String :=
  if s.nworkers < 1 then (s, "bad-op") else
  match Sched.parseParams ts with
  | none => (s, "bad-op")
  | some p =>
    let cfg := cfgOf s
    let r := Sched.run (lts cfg) p (init cfg)
    let runs := (List.range r.st.nextId).map (countOcc r.st.started)
    let summary := s!"end={r.fin.show} jobs={r.st.nextId} runs={Drv.showCsv runs} done={r.st.done} thrown={r.st.thrown.length} steps={r.steps} |{Sched.showTrace r.trace}"
    ({ s with lastResolved := r.resolved }, summary)

def doExplore (s : St) (ts : List String) : St × String :=
  if s.nworkers < 1 then (s, "bad-op") else
  match Sched.parseParams ts with
  | none => (s, "bad-op")
  | some p =>
    if !p.sched.isEmpty then (s, "bad-op") else
    let cfg := cfgOf s
    let (runs, complete) := Sched.explore (lts cfg) p (init cfg)
    (s, s!"explored={runs} complete={if complete then 1 else 0} violated=0")

def step (s : St) (ts : List String) : St × String :=
  match ts with
  | ["pool", n] =>
    match (if n.length ≤ 2 ∧ n.all Char.isDigit then n.toNat? else none) with
    | some k => if 1 ≤ k ∧ k ≤ 8 then ({ s with nworkers := k, initYields := 0 }, "ok") else (s, "bad-op")
    | none => (s, "bad-op")
  | ["pool", n, ini] =>
    match (if n.length ≤ 2 ∧ n.all Char.isDigit then n.toNat? else none), Sched.keyNat "init" ini with
    | some k, some y =>
      if 1 ≤ k ∧ k ≤ 8 ∧ y ≤ 8 then ({ s with nworkers := k, initYields := y }, "ok") else (s, "bad-op")
    | _, _ => (s, "bad-op")
  | "job" :: code :: acts =>
    let body := acts.takeWhile (· ≠ "~")
    let dt := (acts.dropWhile (· ≠ "~")).drop 1
    let dtorOk : Act → Bool := fun a => match a with | .enq _ | .obsDone | .obsIdle => true | _ => false
    match parseCode code, body.mapM (parseAct true), dt.mapM (parseAct true) with
    | some c, some b, some d =>
      if d.all dtorOk then ({ s with jobs := s.jobs ++ [(c, b)], dtors := s.dtors ++ [(c, d)] }, "ok") else (s, "bad-op")
    | _, _, _ => (s, "bad-op")
  | "client" :: calls =>
    match calls.mapM (parseAct false) with
    | some cs => if s.clients.length < 8 then ({ s with clients := s.clients ++ [cs] }, "ok") else (s, "bad-op")
    | none => (s, "bad-op")
  | "main" :: calls =>
    match calls.mapM (parseAct false) with
    | some cs => ({ s with mainCalls := cs }, "ok")
    | none => (s, "bad-op")
  | "run" :: rest => doRun s rest
  | "explore" :: rest => doExplore s rest
  | ["sched"] => (s, Drv.showCsv s.lastResolved.toList)
  | _ => (s, "bad-op")

def main : IO Unit := Drv.loop ({} : St) step
