/-
Line-protocol driver of the C03 model (see harness/c03.cpp for the protocol).
-/
import TlxVerif.Model.Drv
import TlxVerif.Model.C03Two
import TlxVerif.Model.C03Trace
import TlxVerif.Gen.C03Consts
open TlxVerif TlxVerif.C03

structure St where
  pool : Array Str := #[]
  offs : Array Int := #[]          -- suffix offset or -1
  text : Option Str := none

def hexVal (c : Char) : Option Nat :=
  if '0' ≤ c ∧ c ≤ '9' then some (c.toNat - '0'.toNat)
  else if 'a' ≤ c ∧ c ≤ 'f' then some (c.toNat - 'a'.toNat + 10)
  else if 'A' ≤ c ∧ c ≤ 'F' then some (c.toNat - 'A'.toNat + 10)
  else none

def parseHexGo : List Char → Option Str
  | [] => some []
  | a :: b :: rest => do
    let x ← hexVal a
    let y ← hexVal b
    let v := x * 16 + y
    if v = 0 then none
    let r ← parseHexGo rest
    pure (UInt8.ofNat v :: r)
  | _ => none

def parseHex (s : String) : Option Str :=
  if s = "-" then some [] else parseHexGo s.toList

def fnv (s : String) : String :=
  let h : UInt64 := s.toUTF8.foldl (fun h c => (h ^^^ c.toUInt64) * 1099511628211) 1469598103934665603
  let d := (Nat.toDigits 16 h.toNat)
  String.ofList (List.replicate (16 - d.length) '0' ++ d)

def baseRep (rep : String) : String :=
  if rep = "cp" ∨ rep = "ucp" ∨ rep = "vcp" ∨ rep = "vucp" then "ucp"
  else if rep = "ccp" ∨ rep = "cucp" ∨ rep = "vccp" ∨ rep = "vcucp" then "cucp"
  else if rep = "str" ∨ rep = "strp" ∨ rep = "vstr" then "str"
  else rep

def detailAlgos := ["ins", "mkqs", "CE0", "CE2", "CE3", "CI2", "CI3"]
def detailReps := ["ucp", "cucp", "str", "uptr", "suf", "scp", "sccp"]
def apiReps := ["cp", "ucp", "ccp", "cucp", "vcp", "vucp", "vccp", "vcucp", "strp", "vstr"]

def lookupConsts (rep : String) (wl : Bool) : Option Consts :=
  (Gen.constsTable.find? fun e => e.1 = rep ∧ e.2.1 = wl).map fun e => e.2.2

/-- indices of equal neighbouring strings in ascending order (object identity of `std::string`
values is not observable) -/
def canonRuns : List (Nat × Str) → List Nat → List Nat → List Nat
  | [], run, acc => (acc.reverse ++ run.mergeSort)
  | [x], run, acc => acc.reverse ++ (x.1 :: run).mergeSort
  | x :: y :: rest, run, acc =>
    if x.2 = y.2 then canonRuns (y :: rest) (x.1 :: run) acc
    else canonRuns (y :: rest) [] ((x.1 :: run).mergeSort.reverse ++ acc)

/-- the proved model: the out-of-place sorts run in their two-array form (active/shadow arrays,
flipped flag) up to 4096 strings and in the (proved equal) list form above that -/
def runAlgo (algo : String) (c : Consts) (wl : Bool) (depth : Nat) (ss : List (Nat × Str))
    (l : List Nat) (mem : Nat) : List (Nat × Str) × List Nat :=
  let str : Nat × Str → Str := Prod.snd
  let two := ss.length ≤ 4096
  match algo with
  | "ins" => insertionSort str wl depth ss l
  | "mkqs" => multikeyQuicksort str c wl depth ss l mem
  | "CE0" => if two then radixsortCE0Two str c wl depth ss l mem else radixsortCE0 str c wl depth ss l mem
  | "CE2" => if two then radixsortCE2Two str c wl depth ss l mem else radixsortCE2 str c wl depth ss l mem
  | "CE3" => if two then radixsortCE3Two str c wl depth ss l mem else radixsortCE3 str c wl depth ss l mem
  | "CI2" => radixsortCI2 str c wl depth ss l mem
  | "CI3" => radixsortCI3 str c wl depth ss l mem
  | _ => if two then sortStringsTwo str c wl ss l mem else sortStrings str c wl ss l mem

def doSort (s : St) (algo rep lcpS memS depthS : String) : Option String := do
  let mem ← memS.toNat?
  let depth ← depthS.toNat?
  let wl ← if lcpS = "1" then some true else if lcpS = "0" then some false else none
  let api := algo = "api"
  if api then
    if ¬ (apiReps.contains rep ∧ depth = 0) then none
  else
    if ¬ (detailAlgos.contains algo ∧ detailReps.contains rep) then none
  if mem ≥ 2 ^ 64 then none
  let pool := s.pool.toList
  let n := pool.length
  -- common prefix of length depth
  let p0 := (pool.head?.getD []).take depth
  if ¬ pool.all (fun x => x.length ≥ depth ∧ x.take depth = p0) then none
  if rep = "suf" then
    let os := s.offs.toList
    if ¬ (s.text.isSome ∧ os.all (· ≥ 0) ∧ os.eraseDups.length = os.length) then none
  let c ← lookupConsts (baseRep rep) wl
  let ss : List (Nat × Str) := pool.zipIdx.map fun p => (p.2, p.1)
  let l0 : List Nat := if wl then (List.range n).map (3000000000 + ·) else []
  let (out, l) := runAlgo algo c wl depth ss l0 mem
  -- the traced skeleton: branch coverage of this sort; up to 4096 strings it also has to
  -- reproduce the result of the proved model
  let small := n ≤ 4096 ∧ (pool.map List.length).sum ≤ 200000
  let tr := Trace.runT (Prod.snd : Nat × Str → Str) (!small) algo c wl depth ss l0 mem
  if small ∧ ¬ (tr.1.1.map Prod.fst = out.map Prod.fst ∧ tr.1.2 = l) then
    pure "MODEL-TRACE-MISMATCH"
  else
  let ord := if baseRep rep = "str" then canonRuns out [] [] else out.map Prod.fst
  let full := s!"ord={Drv.showCsv ord} lcp={if wl then Drv.showCsv l else "-"}"
  pure ((if n > 128 then s!"n={n} fnv={fnv full}" else full) ++ " #cov=" ++ Trace.showCov tr.2)

/-- `sweep <algo> <rep> <lcp> <depth> <maxRuns>` (driver only, used by the generator before the
correspondence): memory limits just below / at / above every fall-back threshold the model meets
on this pool, each with the branch coverage it produces -/
def doSweep (s : St) (algo rep lcpS depthS runsS : String) : Option String := do
  let depth ← depthS.toNat?
  let runs ← runsS.toNat?
  let wl ← if lcpS = "1" then some true else if lcpS = "0" then some false else none
  let c ← lookupConsts (baseRep rep) wl
  let ss : List (Nat × Str) := s.pool.toList.zipIdx.map fun p => (p.2, p.1)
  let r := Trace.sweep (Prod.snd : Nat × Str → Str) algo c depth ss runs
  pure (" ".intercalate (r.map fun p => s!"{p.1}={p.2}"))

def step (s : St) (ts : List String) : St × String :=
  match ts with
  | "str" :: hs =>
    if hs.isEmpty then (s, "bad-op") else
    match hs.mapM parseHex with
    | some l =>
      let s' := { s with pool := s.pool ++ l.toArray, offs := s.offs ++ (l.map fun _ => (-1 : Int)).toArray }
      (s', s!"ok {s'.pool.size}")
    | none => (s, "bad-op")
  | ["text", h] =>
    match s.text, parseHex h with
    | none, some t => ({ s with text := some t }, s!"ok {t.length}")
    | _, _ => (s, "bad-op")
  | "suf" :: os =>
    match s.text, os.mapM String.toNat? with
    | some t, some l =>
      if l.isEmpty ∨ ¬ l.all (· ≤ t.length) then (s, "bad-op") else
      let s' := { s with pool := s.pool ++ (l.map fun o => t.drop o).toArray,
                         offs := s.offs ++ (l.map fun (o : Nat) => Int.ofNat o).toArray }
      (s', s!"ok {s'.pool.size}")
    | _, _ => (s, "bad-op")
  | ["sweep", algo, rep, lcpS, depthS, runsS] =>
    match doSweep s algo rep lcpS depthS runsS with
    | some a => (s, a)
    | none => (s, "bad-op")
  | ["sort", algo, rep, lcpS, memS, depthS] =>
    match doSort s algo rep lcpS memS depthS with
    | some a => (s, a)
    | none => (s, "bad-op")
  | _ => (s, "bad-op")

def main : IO Unit := Drv.loop ({} : St) step
