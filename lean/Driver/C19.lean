import TlxVerif.Model.Drv
import TlxVerif.Model.C19Codec
import TlxVerif.Model.C19Split
import TlxVerif.Model.C19Helpers
open TlxVerif TlxVerif.C18 TlxVerif.C19

/-!
Line-protocol driver for C19 (op lines: see harness/c19.cpp).  Everything behind a
`=` token (the expectation of the direct definition, checked by the harness) is ignored.
-/

def hexDigit (n : Nat) : Char := "0123456789abcdef".toList.getD n '?'
def hexByte (b : UInt8) : String := String.ofList [hexDigit (b.toNat / 16), hexDigit (b.toNat % 16)]
def hex (b : Bytes) : String := if b.isEmpty then "-" else String.join (b.map hexByte)
def hexv (v : List Bytes) : String := if v.isEmpty then "[]" else ",".intercalate (v.map hex)

def hexVal (c : Char) : Option Nat :=
  if '0' ≤ c ∧ c ≤ '9' then some (c.toNat - '0'.toNat)
  else if 'a' ≤ c ∧ c ≤ 'f' then some (c.toNat - 'a'.toNat + 10)
  else none

def parseHexList : List Char → Option Bytes
  | [] => some []
  | [_] => none
  | a :: b :: rest => do
    let x ← hexVal a
    let y ← hexVal b
    let r ← parseHexList rest
    pure (UInt8.ofNat (x * 16 + y) :: r)

def pBytes (tok : String) : Option Bytes := if tok = "-" then some [] else parseHexList tok.toList
def pVec (tok : String) : Option (List Bytes) := if tok = "[]" then some [] else (tok.splitOn ",").mapM pBytes
def pNum (tok : String) : Option Nat := if tok = "n" then some npos else if tok.length > 18 then none else tok.toNat?
def pChar (tok : String) : Option UInt8 := do
  let b ← pBytes tok
  match b with
  | [c] => some c
  | _ => none

def sgn (c : Int) : String := if c < 0 then "<" else if c > 0 then ">" else "="
def bit (b : Bool) : String := if b then "1" else "0"
def optHex : Option Bytes → String
  | some b => hex b
  | none => "X"
def optHexv : Option (List Bytes) → String
  | some v => hexv v
  | none => "X"

def answer (ts : List String) : Option String :=
  match ts with
  | ["b64e", d, lb] => do
    let d ← pBytes d; let lb ← pNum lb
    if lb % 4 ≠ 0 then none else pure (hex (base64Encode d lb))
  | ["b64d", d, strict] => do
    let d ← pBytes d; let s ← pNum strict
    if s > 1 then none else pure (optHex (base64Decode d (s == 1)))
  | ["b64rt", d, lb] => do
    let d ← pBytes d; let lb ← pNum lb
    if lb % 4 ≠ 0 then none else pure (optHex (base64Decode (base64Encode d lb) true))
  | ["hexd", d] => do let d ← pBytes d; pure (hex (hexdump d))
  | ["hexl", d] => do let d ← pBytes d; pure (hex (hexdumpLc d))
  | ["hexp", d] => do let d ← pBytes d; pure (optHex (parseHexdump d))
  | ["hexrt", d] => do
    let d ← pBytes d
    pure (optHex (parseHexdump (hexdump d)) ++ "," ++ optHex (parseHexdump (hexdumpLc d)))
  | ["splitc", c, s, lim] => do
    let c ← pChar c; let s ← pBytes s; let lim ← pNum lim
    pure (hexv (splitChar c s lim))
  | ["splits", sep, s, lim] => do
    let sep ← pBytes sep; let s ← pBytes s; let lim ← pNum lim
    pure (hexv (splitStr sep s lim))
  | ["splitcm", c, s, mn, lim] => do
    let c ← pChar c; let s ← pBytes s; let mn ← pNum mn; let lim ← pNum lim
    if mn > lim ∨ mn > 64 then none else pure (hexv (splitCharMin c s mn lim))
  | ["splitsm", sep, s, mn, lim] => do
    let sep ← pBytes sep; let s ← pBytes s; let mn ← pNum mn; let lim ← pNum lim
    if mn > lim ∨ mn > 64 then none else pure (hexv (splitStrMin sep s mn lim))
  | ["joinc", c, v] => do let c ← pChar c; let v ← pVec v; pure (hex (join [c] v))
  | ["joins", sep, v] => do let sep ← pBytes sep; let v ← pVec v; pure (hex (join sep v))
  | ["sjrt", sep, v] => do
    let sep ← pBytes sep; let v ← pVec v
    let r := hexv (splitStr sep (join sep v) npos)
    match sep with
    | [c] => pure (r ++ "|" ++ hexv (splitChar c (join [c] v) npos))
    | _ => pure r
  | ["joinq", sep, q, e, v] => do
    let sep ← pChar sep; let q ← pChar q; let e ← pChar e; let v ← pVec v
    pure (hex (joinQuoted v sep q e))
  | ["splitq", s, sep, q, e] => do
    let s ← pBytes s; let sep ← pChar sep; let q ← pChar q; let e ← pChar e
    pure (optHexv (splitQuoted s sep q e))
  | ["qrt", sep, q, e, v] => do
    let sep ← pChar sep; let q ← pChar q; let e ← pChar e; let v ← pVec v
    pure (optHexv (splitQuoted (joinQuoted v sep q e) sep q e))
  | ["repf", s, n, i] => do
    let s ← pBytes s; let n ← pBytes n; let i ← pBytes i
    if n.isEmpty then none else pure (hex (replaceFirst s n i))
  | ["repa", s, n, i] => do
    let s ← pBytes s; let n ← pBytes n; let i ← pBytes i
    if n.isEmpty then none else pure (hex (replaceAll s n i))
  | ["repfc", s, a, b] => do
    let s ← pBytes s; let a ← pChar a; let b ← pChar b
    pure (hex (replaceFirst s [a] [b]))
  | ["repac", s, a, b] => do
    let s ← pBytes s; let a ← pChar a; let b ← pChar b
    pure (hex (replaceAll s [a] [b]))
  | ["trim", s, d] => do
    let s ← pBytes s; let d ← pBytes d
    pure (hex (trimString s d) ++ "," ++ hex (trimViewPtr s d) ++ "," ++ hex (trimView s d))
  | ["triml", s, d] => do
    let s ← pBytes s; let d ← pBytes d
    pure (hex (trimLeftString s d) ++ "," ++ hex (trimLeftViewPtr s d) ++ "," ++ hex (trimLeftView s d))
  | ["trimr", s, d] => do
    let s ← pBytes s; let d ← pBytes d
    pure (hex (trimRightString s d) ++ "," ++ hex (trimRightViewPtr s d) ++ "," ++ hex (trimRightView s d))
  | ["sw", s, m] => do
    let s ← pBytes s; let m ← pBytes m
    pure (bit (startsWith s m) ++ bit (endsWith s m) ++ bit (startsWithIcase s m) ++ bit (endsWithIcase s m))
  | ["contains", s, p] => do
    let s ← pBytes s; let p ← pBytes p
    pure (bit (C19.contains s p))
  | ["lower", s] => do let s ← pBytes s; pure (hex (toLowerStr s))
  | ["upper", s] => do let s ← pBytes s; pure (hex (toUpperStr s))
  | ["icmp", a, b] => do
    let a ← pBytes a; let b ← pBytes b
    let az := cstr a; let bz := cstr b
    pure ("c=" ++ sgn (compareIcase az bz) ++ sgn (compareIcase az b) ++ sgn (compareIcase a bz) ++ sgn (compareIcase a b)
      ++ " e=" ++ bit (equalIcaseLoop az bz) ++ bit (equalIcaseLoop az b) ++ bit (equalIcaseLoop a bz) ++ bit (equalIcaseView a b)
      ++ " l=" ++ bit (lessIcaseLoop az bz) ++ bit (lessIcaseLoop az b) ++ bit (lessIcaseLoop a bz) ++ bit (lessIcaseView a b))
  | ["erase", s, d] => do
    let s ← pBytes s; let d ← pBytes d
    pure (hex (eraseAllCopy s d) ++ "," ++ hex (eraseAllInplace s d))
  | ["pad", s, len, c] => do
    let s ← pBytes s; let len ← pNum len; let c ← pChar c
    if len > 4096 then none else pure (hex (pad s len c))
  | ["lev", a, b] => do
    let a ← pBytes a; let b ← pBytes b
    pure (toString (levenshtein a b) ++ " " ++ toString (levenshteinIcase a b))
  | _ => none

/-! aliased arguments: `al <op> <buffer> off:len …` — every view is a slice of the one buffer; the
models work on the denoted bytes, so aliasing cannot matter to them (that it does not matter to the code
is what these lines check) -/

def pSlice (buf : Bytes) (tok : String) : Option Bytes :=
  match tok.splitOn ":" with
  | [a, b] => do
    if tok.length > 12 then none
    let o ← a.toNat?
    let l ← b.toNat?
    if o > buf.length ∨ l > buf.length - o then none else pure ((buf.drop o).take l)
  | _ => none

def answerAlias (ts : List String) : Option String :=
  match ts with
  | [op, b, x, y] => do
    let buf ← pBytes b; let v0 ← pSlice buf x; let v1 ← pSlice buf y
    match op with
    | "sw" => pure (bit (startsWith v0 v1) ++ bit (endsWith v0 v1) ++ bit (startsWithIcase v0 v1) ++ bit (endsWithIcase v0 v1))
    | "contains" => pure (bit (C19.contains v0 v1))
    | "icmp" => pure ("c=" ++ sgn (compareIcase v0 v1) ++ " e=" ++ bit (equalIcaseView v0 v1) ++ " l=" ++ bit (lessIcaseView v0 v1))
    | "erase" => pure (hex (eraseAllCopy v0 v1))
    | "trim" => pure (hex (trimViewPtr v0 v1) ++ "," ++ hex (trimView v0 v1))
    | "triml" => pure (hex (trimLeftViewPtr v0 v1) ++ "," ++ hex (trimLeftView v0 v1))
    | "trimr" => pure (hex (trimRightViewPtr v0 v1) ++ "," ++ hex (trimRightView v0 v1))
    | "lev" => pure (toString (levenshtein v0 v1) ++ " " ++ toString (levenshteinIcase v0 v1))
    | _ => none
  | [op, b, x, y, z] => do
    let buf ← pBytes b; let v0 ← pSlice buf x; let v1 ← pSlice buf y
    match op with
    | "repf" => do let v2 ← pSlice buf z; if v1.isEmpty then none else pure (hex (replaceFirst v0 v1 v2))
    | "repa" => do let v2 ← pSlice buf z; if v1.isEmpty then none else pure (hex (replaceAll v0 v1 v2))
    | "splits" => do let lim ← pNum z; pure (hexv (splitStr v0 v1 lim))
    | _ => none
  | _ => none

def step (_ : Unit) (ts : List String) : Unit × String :=
  let args := ts.takeWhile (· ≠ "=")
  match args with
  | "al" :: rest => ((), (answerAlias rest).getD "bad-op")
  | _ => ((), (answer args).getD "bad-op")

def main : IO Unit := Drv.loop () step
