import TlxVerif.Model.Drv
import TlxVerif.Model.C12
import TlxVerif.Model.C12Conc
open TlxVerif TlxVerif.C12

/-! Line-protocol driver of the C12 models; see harness/c12.cpp for the protocol. -/

def showPtr : Option Ptr → String
  | none => "-"
  | some none => "null"
  | some (some i) => s!"o{i}"

def showObj (o : Obj) : String := if o.dead ≠ 0 then s!"X{o.dead}" else toString o.rc

def dump (s : St) : String :=
  "h=[" ++ ",".intercalate (s.h.map showPtr) ++ "] ; o=[" ++ ",".intercalate (s.o.map showObj) ++ "]"

def parseOp (ts : List String) : Option Op :=
  match ts with
  | [op, h] => do
      let h ← h.toNat?
      match op with
      | "make" => some (.make h) | "null" => some (.null h) | "reset" => some (.reset h)
      | "unify" => some (.unify h) | "dtor" => some (.dtor h) | _ => none
  | [op, h, x] => do
      let h ← h.toNat?; let x ← x.toNat?
      match op with
      | "raw" => some (.raw h x) | "copy" => some (.copy h x) | "move" => some (.move h x)
      | "assign" => some (.assign h x) | "massign" => some (.massign h x)
      | "swap" | "fswap" => some (.swap h x) | "objassign" => some (.objassign h x) | _ => none
  | _ => none

def query (s : St) (ts : List String) : Option String :=
  match ts with
  | [q, h] => do
      let h ← h.toNat?
      let p ← s.ptr? h
      match q with
      | "use" => match p with
          | some i => match readRc s i with | .ok n => some (toString n) | .error e => some s!"MODEL-ERROR {e}"
          | none => none
      | "unique" => match p with
          | some i => match readRc s i with | .ok n => some (if n = 1 then "1" else "0") | .error e => some s!"MODEL-ERROR {e}"
          | none => some "0"
      | "valid" => some (if p.isSome then "1" else "0")
      | "empty" => some (if p.isNone then "1" else "0")
      | "get" => some (showPtr (some p))
      | _ => none
  | ["eq", h, x] => do
      let h ← h.toNat?; let x ← x.toNat?
      let p ← s.ptr? h; let q ← s.ptr? x
      if isB h != isB x then none else some (if p = q then "1" else "0")
  | _ => none

def stepConc (ts : List String) : Option String :=
  match ts with
  | ["conc", progs, sched] => do
      let ps := (progs.splitOn ",").map fun p => if p = "-" then [] else p.toList
      if ps.isEmpty || ps.length > 4 then none else
      if ps.any (fun p => p.any (fun c => !("cabmnrqsuvQwxyzCKABM".toList.contains c))) then none else
      let sc ← Drv.natCsv sched
      let s0 := CSt.start true ps
      let fuel := 8 * ((ps.map List.length).foldl (· + ·) 0 + 3 * ps.length) + 8
      let (s, ev, k) := runSched true fuel s0 sc 0 0 []
      let evs := if ev.isEmpty then "-" else " ".intercalate ev
      match s.err with
      | some e => some s!"MODEL-ERROR {e}"
      | none => some s!"{evs} ; destroyed={s.destroyed} steps={k}"
  | ["stress", n, it, _seed] => do
      let n ← n.toNat?; let _ ← it.toNat?
      -- theorem conc_terminal_destroyed_once: every terminal state of the LTS has destroyed = 1
      if n < 1 || n > 8 then none else some "destroyed=1"
  | _ => none

def step (s : St) (ts : List String) : St × String :=
  match ts with
  | "conc" :: _ | "stress" :: _ =>
      match stepConc ts with
      | some out => (s, out)
      | none => (s, "bad-op")
  | _ =>
    match parseOp ts with
    | some op =>
        if !op.wf s then (s, "bad-op") else
        match TlxVerif.C12.step s op with
        | .ok s' => (s', "ok ; " ++ dump s')
        | .error e => (s, s!"MODEL-ERROR {e}")
    | none =>
        match query s ts with
        | some r => (s, r ++ " ; " ++ dump s)
        | none => (s, "bad-op")

def main : IO Unit := Drv.loop St.init step
