import TlxVerif.Model.Drv
import TlxVerif.Model.C12
import TlxVerif.Model.C12Conc
open TlxVerif TlxVerif.C12

/-! Line-protocol driver of the C12 models; see harness/c12.cpp for the protocol. -/

def showPtr : Option Ptr → String
  | none => "-"
  | some none => "null"
  | some (some i) => s!"o{i}"

def showObj (o : Obj) : String := if o.dead ≠ 0 then s!"X{o.dead}" else toString o.rc

def dump (s0 s : St) : String :=
  "h=[" ++ ",".intercalate (s.h.map showPtr) ++ "] ; o=[" ++ ",".intercalate (s.o.map showObj) ++
  "] ; del=[" ++ ",".intercalate ((deleterCalls s0 s).map fun i => s!"o{i}") ++ "]"

def parseOp (ts : List String) : Option Op :=
  match ts with
  | [op, h] => do
      let h ← h.toNat?
      match op with
      | "make" => some (.make h) | "null" => some (.null h) | "reset" => some (.reset h)
      | "unify" => some (.unify h) | "dtor" => some (.dtor h) | _ => none
  | [op, h, x] => do
      let h ← h.toNat?; let x ← x.toNat?
      match op with
      | "raw" => some (.raw h x) | "copy" => some (.copy h x) | "move" => some (.move h x)
      | "assign" => some (.assign h x) | "massign" => some (.massign h x)
      | "swap" | "fswap" => some (.swap h x) | "objassign" => some (.objassign h x) | _ => none
  | _ => none

def query (s : St) (ts : List String) : Option String :=
  match ts with
  | [q, h] => do
      let h ← h.toNat?
      let p ← s.ptr? h
      match q with
      | "use" => match p with
          | some i => match readRc s i with | .ok n => some (toString n) | .error e => some s!"MODEL-ERROR {e}"
          | none => none
      | "unique" => match p with
          | some i => match readRc s i with | .ok n => some (if n = 1 then "1" else "0") | .error e => some s!"MODEL-ERROR {e}"
          | none => some "0"
      | "valid" => some (if p.isSome then "1" else "0")
      | "empty" => some (if p.isNone then "1" else "0")
      | "get" => some (showPtr (some p))
      | _ => none
  | ["eq", h, x] => do
      let h ← h.toNat?; let x ← x.toNat?
      let p ← s.ptr? h; let q ← s.ptr? x
      if isB h != isB x then none else some (if p = q then "1" else "0")
  | _ => none

def stepConc (ts : List String) : Option String :=
  match ts with
  | ["conc", progs, sched] => do
      let ps := (progs.splitOn ",").map fun p => if p = "-" then [] else p.toList
      if ps.isEmpty || ps.length > 4 then none else
      if ps.any (fun p => p.any (fun c => !("cabmnrqsuvQwxyzCKABM".toList.contains c))) then none else
      let sc ← Drv.natCsv sched
      let s0 := CSt.start true ps
      let fuel := 8 * ((ps.map List.length).foldl (· + ·) 0 + 3 * ps.length) + 8
      let (s, ev, k) := runSched true fuel s0 sc 0 0 []
      let evs := if ev.isEmpty then "-" else " ".intercalate ev
      match s.err with
      | some e => some s!"MODEL-ERROR {e}"
      | none => some s!"{evs} ; destroyed={s.destroyed} steps={k}"
  | ["stress", n, it, _seed] => do
      let n ← n.toNat?; let _ ← it.toNat?
      -- theorem conc_terminal_destroyed_once: every terminal state of the LTS has destroyed = 1
      if n < 1 || n > 8 then none else some "destroyed=1"
  | _ => none

/-- driver state: the model state plus the protocol's per-case deleter mode -/
structure DSt where
  st : St := St.init
  fresh : Bool := true          -- no operation yet in this case
  dflt : Bool := true           -- the case uses the default deleter

def stepSeq (s : St) (ts : List String) : St × String :=
  match parseOp ts with
  | some op =>
      if !op.wf s then (s, "bad-op") else
      match TlxVerif.C12.step s op with
      | .ok s' => (s', "ok ; " ++ dump s s')
      | .error e => (s, s!"MODEL-ERROR {e}")
  | none =>
      match query s ts with
      | some r => (s, r ++ " ; " ++ dump s s)
      | none => (s, "bad-op")

def step (d : DSt) (ts : List String) : DSt × String :=
  match ts with
  | "mode" :: rest =>
      -- the Deleter type of the case: the model counts deleter invocations and is the same for all three;
      -- accepted only as the first operation of a case, as in the harness
      match rest with
      | [m] =>
        if (m = "default" || m = "counting" || m = "nodelete") && d.fresh
        then ({ d with fresh := false, dflt := m = "default" }, "ok") else ({ d with fresh := false }, "bad-op")
      | _ => ({ d with fresh := false }, "bad-op")
  | "rawrace" :: _ =>
      -- harness-only op (construction from a raw pointer of a not yet referenced object, see harness/c12.cpp)
      ({ d with fresh := false }, if d.dflt then "n/a" else "bad-op")
  | "conc" :: _ | "stress" :: _ =>
      if !d.dflt then ({ d with fresh := false }, "bad-op") else
      match stepConc ts with
      | some out => ({ d with fresh := false }, out)
      | none => ({ d with fresh := false }, "bad-op")
  | _ =>
      let (s', out) := stepSeq d.st ts
      ({ d with st := s', fresh := false }, out)

def main : IO Unit := Drv.loop ({} : DSt) step
