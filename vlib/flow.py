"""The standard check flow A–D of DESIGN §3, parameterised by a per-property Spec."""
import glob
import os
import re
import time

from . import core


class Spec:
    """Per-property description.  Override what is needed."""
    pid = None
    lean_targets = None           # default: Props.<pid>, Audit.<pid>, drv_<pid>
    extra_lean_sources = ()       # additional Lean files (relative to lean/) to scan
    harness = None                # dict(name=, sources=[...], flags=[...], repo_sources=[...])
    harness_args = ("run",)       # argv of the harness in line-protocol mode
    assumptions = ()
    trusted_base = ()
    search_rounds = 6             # extra generation rounds when something broke
    case_timeout = 3600
    max_reports = 3
    source_files = ()             # anchored tlx sources the model transliterates (sentinel)
    search_budget_s = 300         # wall-clock budget of the extra search rounds

    def probe_lines(self, case, idx):
        """Observation operations to append behind op `idx` of a case on which model and
        implementation disagree structurally: queries that would expose the disagreement
        as a failure of the property itself on the real code.  Default: none."""
        return []

    def translator(self, ctx):
        """regenerate Gen/*.lean from /repo; return list of problems (strings)"""
        return []

    def cases(self, ctx, seed, tier, round_no=0):
        """list of cases; a case is a list of protocol lines starting with `case …`"""
        return []

    def nontrivial(self, case, answers):
        """a hashable key when the case is non-trivial by the property's stated rule"""
        return None

    nontrivial_rule = "n/a"

    def compare(self, op, impl, model):
        return impl == model

    def known_key(self, case, message):
        """map a violating case to the key of a known finding, or None"""
        return None

    def extra_coverage(self, ctx, res):
        return {}

    def viol_class(self, message):
        """class of a violation message, used to report each kind once"""
        return re.sub(r"[0-9]+", "N", message)[:80]


def _corpus_cases(pid):
    cs = []
    for p in sorted(glob.glob(os.path.join(core.VERIF, "replays", pid, "corpus", "*.ops"))):
        lines = [l.rstrip("\n") for l in open(p) if l.strip() and not l.startswith("#")]
        cs += core.split_cases(lines)
    return cs


def run(spec, tier, seed, replay=None):
    ctx = core.Ctx(spec.pid, tier, seed)
    pid = spec.pid
    targets = spec.lean_targets or [f"TlxVerif.Props.{pid}", f"TlxVerif.Audit.{pid}", f"drv_{pid.lower()}"]

    # ---- A translator
    tprobs = spec.translator(ctx) or []
    for p in tprobs:
        ctx.say("translator:", p)

    # ---- B Lean
    lean = core.lean_stage(ctx, targets, spec.extra_lean_sources)
    for p in lean["problems"][:20]:
        ctx.say("lean:", p)
    broken = list(tprobs) + list(lean["problems"])

    # ---- C/D harness + correspondence
    changed_sources = core.sources_changed(pid, spec.source_files) if spec.source_files else []
    res = None
    hcmd = dcmd = None
    stats = dict(cases=0, ops=0, nontrivial=set(), samples=[], hist={})
    reported = {}
    mismatch_info = []
    if spec.harness:
        hb, hlog = core.build_harness(ctx, **spec.harness)
        if hb is None:
            broken.append("harness does not compile against the current tree: " + hlog[-1500:])
        else:
            hcmd = [hb] + list(spec.harness_args)
            dcmd = [core.driver_path(pid)]
            have_driver = os.path.exists(dcmd[0])
            if not have_driver:
                broken.append("model driver was not built")

            def run_round(cases, label):
                nonlocal res
                if not cases:
                    return
                r = core.correspondence(ctx, hcmd, dcmd, cases, timeout=spec.case_timeout,
                                        compare=spec.compare, need_driver=have_driver)
                stats["cases"] += r.cases
                stats["ops"] += r.ops
                for c, a in zip(cases, r.impl_out):
                    try:
                        k = spec.nontrivial(c, a) if a else None
                    except Exception:
                        k = None
                    if k is not None:
                        stats["nontrivial"].add(k)
                    for l in c[1:]:
                        op = l.split(" ", 1)[0]
                        stats["hist"][op] = stats["hist"].get(op, 0) + 1
                if len(stats["samples"]) < 3:
                    for c, a in list(zip(cases, r.impl_out))[:2]:
                        stats["samples"].append({"ops": c[:12], "impl": a[:12]})
                if r.driver_error:
                    broken.append("correspondence: " + r.driver_error)
                ctx.say(f"{label}: {r.cases} cases, {r.ops} ops, {len(r.viol)} oracle violations, "
                        f"{len(r.crash)} crashes, {len(r.mismatch)} model/impl mismatches")
                # violations of the property on the real code
                for c, msg in [(c, m) for c, m in r.viol] + [(c, core.crash_message(rc, err)) for c, rc, err in r.crash]:
                    cls = spec.viol_class(msg)
                    kk = spec.known_key(c, msg)
                    if kk is not None:
                        cls = "known:" + kk
                    if cls in reported or len(reported) >= spec.max_reports + 8:
                        continue
                    reported[cls] = (c, msg, kk)
                for (c, i, a, m) in r.mismatch[:12]:
                    mismatch_info.append((c, i, a, m))

            t = time.time()
            run_round(_corpus_cases(pid), "corpus")
            gen_tier = tier
            if changed_sources and tier == "quick" and not reported:
                ctx.say("modelled sources changed since the model was last reviewed against them "
                        f"({', '.join(changed_sources)}): validating the model at thorough depth")
                gen_tier = "thorough"
            run_round(spec.cases(ctx, seed, gen_tier, 0), "generated")
            ctx.say(f"correspondence took {time.time()-t:.1f}s")

            probed = [0]

            def probe_new():
                """probe the states on which model and implementation disagree with observations"""
                fresh = mismatch_info[probed[0]:]
                probed[0] = len(mismatch_info)
                probes = []
                for (c, i, a, m) in fresh[:12]:
                    extra = spec.probe_lines(c, i)
                    if extra:
                        probes.append(c[:i + 1] + list(extra))
                if probes:
                    keep = list(mismatch_info)
                    run_round(probes, "probe of disagreeing states")
                    mismatch_info[:] = keep

            no_input = lambda: not any(v[2] is None for v in reported.values())
            if mismatch_info and no_input():
                probe_new()
            if (broken or mismatch_info) and no_input():
                # something no longer checks: search harder for a failing input
                t_search = time.time()
                for rnd in range(1, spec.search_rounds + 1):
                    if time.time() - t_search > spec.search_budget_s:
                        ctx.say(f"search budget of {spec.search_budget_s}s used up")
                        break
                    run_round(spec.cases(ctx, seed + 7919 * rnd, "thorough" if rnd > 2 else tier, rnd),
                              f"search round {rnd}")
                    if no_input():
                        probe_new()
                    if not no_input():
                        break

    # ---- verdicts
    known = dict(core.known_findings(pid))
    nrep = 0
    for cls, (c, msg, kk) in reported.items():
        if kk is not None and kk in known:
            ctx.known.append(f"{kk}: {known[kk]} [still reproduces: {msg[:100]}]")
            continue
        if nrep >= spec.max_reports:
            continue
        nrep += 1
        small = c
        try:
            small = core.ddmin(c, core.case_fails(
                hcmd, dcmd, spec.compare, want="viol",
                accept=lambda ms, cls=cls: any(spec.viol_class(m) == cls for m in ms)))
        except Exception as ex:  # shrinking is best effort
            ctx.say("shrink failed:", ex)
        name = f"viol_{tier}_{seed}_{nrep}.ops"
        p = ctx.write_replay(name, ["kind: property violated on the real code",
                                    "message: " + msg, f"replay: python3 check.py {pid} --replay replays/{pid}/{name}"], small)
        ctx.violation(p, f"property fails on the implementation: {msg[:200]}", True)
    found_input = nrep > 0
    if not found_input and (broken or mismatch_info):
        lines = ["kind: proof obligation / correspondence no longer checks; no failing input found"]
        for b in broken[:30]:
            lines.append("broken: " + b.replace("\n", " | ")[:600])
        body = []
        for (c, i, a, m) in mismatch_info[:1]:
            small = c
            try:
                small = core.ddmin(c, core.case_fails(hcmd, dcmd, spec.compare, want="mismatch"))
            except Exception as ex:
                ctx.say("shrink failed:", ex)
            lines.append(f"correspondence: model and implementation disagree (impl `{a}` vs model `{m}` at op `{c[i]}`)")
            body = small
        name = f"unproved_{tier}_{seed}.ops"
        p = ctx.write_replay(name, lines, body)
        what = broken[0] if broken else "model/implementation correspondence mismatch"
        ctx.violation(p, f"property no longer shown: {what[:200]}", False)

    # ---- evidence
    cov = {
        "obligations": lean["obligations"],
        "discharged": lean["discharged"],
        "checker_cmd": f"cd lean && lake build {' '.join(targets)} && lake env lean TlxVerif/Audit/{pid}.lean",
        "trusted_base": list(spec.trusted_base),
        "theorems": {k: v for k, v in lean["theorems"].items()},
        "open_statements": lean["open"],
        "lean_problems": broken[:20],
        "evaluations": stats["cases"],
        "operations": stats["ops"],
        "distinct_nontrivial": len(stats["nontrivial"]),
        "rule": spec.nontrivial_rule,
        "op_histogram": stats["hist"],
        "samples": stats["samples"] or [{"theorems": list(lean["theorems"])[:5]}],
        "traces_validated_against_impl": stats["cases"],
        "model_impl_mismatches": len(mismatch_info),
        "modelled_sources_changed_since_review": changed_sources,
    }
    cov.update(spec.extra_coverage(ctx, res) or {})
    return core.finish(ctx, "proof", cov, list(spec.assumptions))


def replay(spec, path):
    """show implementation and model side by side on a replay file"""
    ctx = core.Ctx(spec.pid, "quick", 0)
    lines = [l.rstrip("\n") for l in open(path)]
    for l in lines:
        if l.startswith("#"):
            print(l)
    ops = [l for l in lines if l.strip() and not l.startswith("#")]
    if not ops:
        print("(replay file names a broken obligation only; no input to run)")
        return 1
    core.lean_build(ctx, [f"drv_{spec.pid.lower()}"])
    hb, hlog = core.build_harness(ctx, **spec.harness)
    if hb is None:
        print(hlog)
        return 1
    cases = core.split_cases(ops)
    r = core.correspondence(ctx, [hb] + list(spec.harness_args), [core.driver_path(spec.pid)], cases,
                            compare=spec.compare)
    mout, _, _ = core.run_lines([core.driver_path(spec.pid)], ops)
    k = 0
    for c, a in zip(cases, r.impl_out):
        for i, op in enumerate(c):
            im = a[i] if i < len(a) else "<died>"
            mo = mout[k] if k < len(mout) else "<none>"
            flag = "" if spec.compare(op, im, mo) else "   <-- DIFF"
            print(f"{op:40s} impl: {im:30s} model: {mo}{flag}")
            k += 1
    for c, m in r.viol:
        print(m)
    for c, rc, err in r.crash:
        print(f"CRASH rc={rc}\n{err}")
    bad = bool(r.viol or r.crash or r.mismatch)
    print("replay: " + ("FAILS" if bad else "passes"))
    return 1 if bad else 0
