"""Shared machinery of the tlx verification checks (see DESIGN.md §2/§3).

Every per-property check (checks/cNN.py) is built from these pieces:

  A  translator      -> lean/TlxVerif/Gen/*.lean           (per check, optional)
  B  lean_build / lean_audit / forbidden_scan               (kernel re-checks theorems)
  C  build_harness + correspondence()                       (model vs implementation)
  D  the harness' own direct property oracle (`#VIOL` lines) (search for failing inputs)

and finishes with `finish()`, which prints VIOLATION / KNOWN-FINDING lines,
writes evidence/<id>.json and returns the exit code.
"""
import fcntl
import hashlib
import json
import os
import re
import shutil
import subprocess
import sys
import time

VERIF = os.path.dirname(os.path.dirname(os.path.abspath(__file__)))
REPO = os.environ.get("TLX_REPO", "/repo")
LEAN = os.path.join(VERIF, "lean")
BUILD = os.path.join(VERIF, "build")
ALLOWED_AXIOMS = {"propext", "Classical.choice", "Quot.sound"}
FORBIDDEN = re.compile(
    r"\bsorry\b|\badmit\b|^\s*axiom\s|native_decide|bv_decide|implemented_by|"
    r"\bunsafe\s|maxHeartbeats\s+0\b|Lean\.ofReduceBool|Lean\.trustCompiler")

CXX = os.environ.get("VERIF_CXX", "g++")
SAN_FLAGS = ["-std=gnu++17", "-O1", "-g", "-fsanitize=address,undefined",
             "-fno-sanitize-recover=all", "-fno-omit-frame-pointer"]


class Ctx:
    def __init__(self, pid, tier, seed):
        self.pid, self.tier, self.seed = pid, tier, seed
        self.t0 = time.time()
        self.work = os.path.join(BUILD, pid)
        os.makedirs(self.work, exist_ok=True)
        os.makedirs(os.path.join(VERIF, "replays", pid), exist_ok=True)
        self.violations = []      # (replay_path, text, found_input: bool)
        self.known = []           # text
        self.log = []

    def say(self, *a):
        msg = " ".join(str(x) for x in a)
        self.log.append(msg)
        print(f"[{self.pid}] {msg}", flush=True)

    def quick(self):
        return self.tier == "quick"

    def replay_path(self, name):
        return os.path.join(VERIF, "replays", self.pid, name)

    def write_replay(self, name, header, lines):
        p = self.replay_path(name)
        with open(p, "w") as f:
            for h in header:
                f.write("# " + h + "\n")
            for l in lines:
                f.write(l.rstrip("\n") + "\n")
        return p

    def violation(self, replay, text, found_input=True):
        self.violations.append((replay, text, found_input))


# --------------------------------------------------------------------------- util

def sh(cmd, cwd=None, inp=None, timeout=None, env=None):
    e = dict(os.environ)
    if env:
        e.update(env)
    p = subprocess.run(cmd, cwd=cwd, input=inp, capture_output=True, text=True,
                       timeout=timeout, env=e, errors="replace")
    return p.returncode, p.stdout, p.stderr


class _Lock:
    def __init__(self, path):
        self.path = path

    def __enter__(self):
        os.makedirs(os.path.dirname(self.path), exist_ok=True)
        self.f = open(self.path, "w")
        fcntl.flock(self.f, fcntl.LOCK_EX)

    def __exit__(self, *a):
        fcntl.flock(self.f, fcntl.LOCK_UN)
        self.f.close()


def repo_hash(subdirs=("tlx",)):
    h = hashlib.sha256()
    for sd in subdirs:
        for root, dirs, files in os.walk(os.path.join(REPO, sd)):
            dirs.sort()
            for fn in sorted(files):
                if fn.endswith((".hpp", ".cpp", ".h")):
                    p = os.path.join(root, fn)
                    h.update(p.encode())
                    with open(p, "rb") as f:
                        h.update(f.read())
    return h.hexdigest()


def repo_file(rel):
    with open(os.path.join(REPO, rel), errors="replace") as f:
        return f.read()


def repo_head():
    rc, out, _ = sh(["git", "-C", REPO, "rev-parse", "--short", "HEAD"])
    rc2, st, _ = sh(["git", "-C", REPO, "status", "--porcelain", "--untracked-files=no"])
    return out.strip() + ("+dirty" if st.strip() else "")


def source_fingerprints(files):
    out = {}
    for rel in files:
        try:
            with open(os.path.join(REPO, rel), "rb") as f:
                out[rel] = hashlib.sha256(f.read()).hexdigest()[:16]
        except OSError:
            out[rel] = "missing"
    return out


def sources_changed(pid, files):
    """Compare the anchored tlx sources with the fingerprints recorded when the
    model was last reviewed against them (sentinels/<pid>.json, written only by
    `check.py <pid> --bless`).  A difference is NOT an alarm: it makes the check
    validate the model against the code at the thorough depth."""
    p = os.path.join(VERIF, "sentinels", pid + ".json")
    now = source_fingerprints(files)
    try:
        old = json.load(open(p))
    except (OSError, ValueError):
        return sorted(now)
    return sorted(k for k in now if old.get(k) != now[k])


def bless_sources(pid, files):
    os.makedirs(os.path.join(VERIF, "sentinels"), exist_ok=True)
    with open(os.path.join(VERIF, "sentinels", pid + ".json"), "w") as f:
        json.dump(source_fingerprints(files), f, indent=1, sort_keys=True)


# --------------------------------------------------------------------------- Lean

def lean_build(ctx, targets):
    """lake build of the given targets; returns (ok, log).  Serialised by a lock
    because several checks may run at once and share lean/.lake."""
    with _Lock(os.path.join(BUILD, "lake.lock")):
        t = time.time()
        rc, out, err = sh(["lake", "build"] + list(targets), cwd=LEAN, timeout=3600)
    ctx.say(f"lake build {' '.join(targets)} -> rc={rc} ({time.time()-t:.1f}s)")
    return rc == 0, out + err


def lean_failed_decls(log):
    """names of modules / positions that failed in a lake log (for the replay file)"""
    out = []
    for l in log.splitlines():
        if re.search(r"error:|✖", l):
            out.append(l.strip())
    return out[:40]


def lean_audit(ctx, pid=None):
    """Runs TlxVerif/Audit/<pid>.lean (a list of `#print axioms thm`) and returns
    (ok, {theorem: [axioms]}, problems).  Every theorem named in the audit file
    must be reported, and only with allowed axioms."""
    pid = pid or ctx.pid
    path = os.path.join(LEAN, "TlxVerif", "Audit", pid + ".lean")
    want = re.findall(r"^#print axioms\s+(\S+)", open(path).read(), re.M)
    with _Lock(os.path.join(BUILD, "lake.lock")):
        rc, out, err = sh(["lake", "env", "lean", path], cwd=LEAN, timeout=1800)
    got = {}
    txt = out + err
    for m in re.finditer(r"'(\S+)' depends on axioms: \[([^\]]*)\]", txt, re.S):
        got[m.group(1)] = [a.strip() for a in m.group(2).replace("\n", " ").split(",") if a.strip()]
    for m in re.finditer(r"'(\S+)' does not depend on any axioms", txt):
        got[m.group(1)] = []
    problems = []
    if rc != 0:
        problems.append("audit file does not elaborate: " + txt.strip()[:2000])
    for w in want:
        key = w if w in got else next((g for g in got if g.endswith("." + w) or w.endswith("." + g)), None)
        if key is None:
            problems.append(f"theorem {w}: no axiom report (missing or broken)")
            continue
        bad = [a for a in got[key] if a not in ALLOWED_AXIOMS]
        if bad:
            problems.append(f"theorem {w}: disallowed axioms {bad}")
    if not want:
        problems.append("audit file lists no theorems")
    return (not problems), {w: got.get(w) for w in want}, problems


def forbidden_scan(files):
    """grep for sorry/admit/axiom/native_decide/... outside comments"""
    hits = []
    for p in files:
        try:
            src = open(p).read()
        except OSError:
            hits.append(f"{p}: unreadable")
            continue
        # strip block comments (nesting-aware) and line comments
        out, depth, i = [], 0, 0
        while i < len(src):
            if src.startswith("/-", i):
                depth += 1; i += 2; continue
            if src.startswith("-/", i) and depth > 0:
                depth -= 1; i += 2; continue
            if depth == 0:
                out.append(src[i])
            elif src[i] == "\n":
                out.append("\n")
            i += 1
        for n, line in enumerate("".join(out).splitlines(), 1):
            line = re.sub(r"--.*$", "", line)
            line = re.sub(r'"(\\.|[^"\\])*"', '""', line)
            if FORBIDDEN.search(line):
                hits.append(f"{os.path.relpath(p, VERIF)}:{n}: {line.strip()[:120]}")
    return hits


def lean_sources_of(pid, extra=()):
    """Lean files that belong to one property: anything whose name starts with the
    id in Model/ Gen/ Proofs/ Props/ Audit/, the shared files, and `extra`."""
    res = []
    for sub in ("Model", "Gen", "Proofs", "Props", "Audit"):
        d = os.path.join(LEAN, "TlxVerif", sub)
        if not os.path.isdir(d):
            continue
        for fn in sorted(os.listdir(d)):
            if fn.endswith(".lean") and (fn.startswith(pid) or fn in ("Drv.lean", "Common.lean")):
                res.append(os.path.join(d, fn))
    d = os.path.join(LEAN, "TlxVerifMath")
    if os.path.isdir(d):
        for fn in sorted(os.listdir(d)):
            if fn.endswith(".lean") and fn.startswith(pid):
                res.append(os.path.join(d, fn))
    res.append(os.path.join(LEAN, "Driver", pid + ".lean"))
    for e in extra:
        res.append(os.path.join(LEAN, e))
    return [r for r in res if os.path.exists(r)]


def open_statements(pid):
    """`-- OPEN: name — what is missing` markers in Props/<pid>.lean"""
    p = os.path.join(LEAN, "TlxVerif", "Props", pid + ".lean")
    if not os.path.exists(p):
        return []
    return [m.strip() for m in re.findall(r"^\s*--\s*OPEN:\s*(.*)$", open(p).read(), re.M)]


def lean_stage(ctx, targets, extra_sources=()):
    """Stage B of DESIGN §3.  Returns dict(ok, obligations, discharged, theorems,
    problems, log).  `problems` is non-empty iff a proof obligation is not
    (or no longer) accepted."""
    ok, log = lean_build(ctx, targets)
    problems = []
    if not ok:
        problems += ["lake build failed"] + lean_failed_decls(log)
    aok, thms, aprobs = lean_audit(ctx)
    problems += aprobs
    hits = forbidden_scan(lean_sources_of(ctx.pid, extra_sources))
    if hits:
        problems += ["forbidden construct: " + h for h in hits]
    obligations = len(thms)
    discharged = 0 if (not ok or hits) else sum(
        1 for t, ax in thms.items() if ax is not None and all(a in ALLOWED_AXIOMS for a in ax))
    return dict(ok=not problems, obligations=obligations, discharged=discharged,
                theorems=thms, problems=problems, log=log, open=open_statements(ctx.pid))


def driver_path(pid):
    return os.path.join(LEAN, ".lake", "build", "bin", "drv_" + pid.lower())


# --------------------------------------------------------------------------- harness

def build_harness(ctx, name, sources, flags=(), repo_sources=(), sanitize=True,
                  include_repo=True, std_flags=None):
    """Compile harness/<sources> (+ /repo .cpp files in repo_sources) against the
    current /repo working tree.  Cached by the content hash of everything under
    /repo/tlx plus the harness sources and flags, so an edit to /repo always
    triggers a rebuild.  Returns (path or None, compiler output)."""
    hdir = os.path.join(VERIF, "harness")
    srcs = [os.path.join(hdir, s) for s in sources] + [os.path.join(REPO, s) for s in repo_sources]
    h = hashlib.sha256()
    h.update(repo_hash().encode())
    for root, dirs, files in os.walk(hdir):
        dirs.sort()
        for fn in sorted(files):
            if fn.endswith((".hpp", ".cpp", ".h")):
                with open(os.path.join(root, fn), "rb") as f:
                    h.update(fn.encode()); h.update(f.read())
    fl = list(std_flags if std_flags is not None else (SAN_FLAGS if sanitize else ["-std=gnu++17", "-O2", "-g"]))
    fl += list(flags)
    h.update(" ".join(fl + srcs).encode())
    out = os.path.join(ctx.work, f"{name}-{h.hexdigest()[:16]}")
    if os.path.exists(out):
        return out, "cached"
    for old in os.listdir(ctx.work):
        # drop stale binaries, but never one a concurrent run may still be using
        if old.startswith(name + "-"):
            try:
                if time.time() - os.path.getmtime(os.path.join(ctx.work, old)) > 2 * 3600:
                    os.remove(os.path.join(ctx.work, old))
            except OSError:
                pass
    cmd = [CXX] + fl + (["-I" + REPO] if include_repo else []) + ["-I" + hdir] + srcs + ["-o", out + ".tmp", "-pthread"]
    t = time.time()
    rc, o, e = sh(cmd, timeout=1800)
    ctx.say(f"build harness {name}: rc={rc} ({time.time()-t:.1f}s)")
    if rc != 0:
        return None, (o + e)[-6000:]
    os.replace(out + ".tmp", out)
    return out, o + e


SAN_ENV = {"ASAN_OPTIONS": "detect_leaks=1:abort_on_error=0:exitcode=99:allocator_may_return_null=1",
           "UBSAN_OPTIONS": "print_stacktrace=1:halt_on_error=1:exitcode=98",
           "LSAN_OPTIONS": "exitcode=97"}


def run_lines(cmd, lines, timeout=3600, env=None):
    """feed protocol lines to a process, return (stdout lines, rc, stderr)"""
    e = dict(SAN_ENV)
    if env:
        e.update(env)
    try:
        rc, out, err = sh(cmd, inp="\n".join(lines) + "\n", timeout=timeout, env=e)
    except subprocess.TimeoutExpired as ex:
        so = ex.stdout or ""
        if isinstance(so, bytes):
            so = so.decode(errors="replace")
        return so.splitlines(), -999, "TIMEOUT after %ss" % timeout
    return out.splitlines(), rc, err


def split_cases(lines):
    cases, cur = [], None
    for l in lines:
        if l.startswith("case"):
            cur = [l]
            cases.append(cur)
        elif cur is not None:
            cur.append(l)
    return cases


MAX_DEATHS_PER_ROUND = 40


class CorrResult:
    def __init__(self):
        self.cases = 0
        self.ops = 0
        self.mismatch = []   # (case_lines, idx, impl, model)
        self.viol = []       # (case_lines, message)   property failed on the real code
        self.crash = []      # (case_lines, rc, stderr tail)
        self.impl_out = []   # per case list of impl answer lines (aligned with op lines)
        self.driver_error = None


def _run_impl_cases(hcmd, cases, timeout):
    """Run all cases in one harness process; when it dies, attribute the death to
    the case it was in and continue behind it.  Returns per-case (answers, viols, crash)."""
    res = [None] * len(cases)
    start = 0
    deaths = 0
    while start < len(cases):
        if deaths >= MAX_DEATHS_PER_ROUND:
            # a tree on which the harness keeps dying: enough failing inputs have been collected,
            # do not restart the process thousands of times
            for ci in range(start, len(cases)):
                res[ci] = ([], [], None)
            break
        flat = [l for c in cases[start:] for l in c]
        out, rc, err = run_lines(hcmd, flat, timeout=timeout)
        # walk the output: exactly one answer line per op line, plus '#VIOL' lines
        k = 0
        pos = 0
        died = False
        for ci in range(start, len(cases)):
            c = cases[ci]
            answers, viols = [], []
            n = 0
            while n < len(c):
                # extra lines emitted by the harness (oracle verdicts) come before/after answers
                while pos < len(out) and out[pos].startswith("#VIOL"):
                    viols.append(out[pos]); pos += 1
                if pos >= len(out):
                    break
                answers.append(out[pos]); pos += 1; n += 1
            while pos < len(out) and out[pos].startswith("#VIOL"):
                viols.append(out[pos]); pos += 1
            if n < len(c):
                # harness stopped inside this case (or before answering it at all)
                res[ci] = (answers, viols, (rc, err[:3000] + ("\n...\n" + err[-9000:] if len(err) > 3000 else "")))
                start = ci + 1
                died = True
                deaths += 1
                break
            res[ci] = (answers, viols, None)
        if not died:
            if rc != 0:
                # died after the last answer (e.g. leak report at exit): blame the last case
                a, v, _ = res[len(cases) - 1]
                res[len(cases) - 1] = (a, v, (rc, err[:3000] + ("\n...\n" + err[-9000:] if len(err) > 3000 else "")))
            break
    return res


def correspondence(ctx, hcmd, dcmd, cases, timeout=3600, compare=None, need_driver=True):
    """Stage C+D.  `cases`: list of cases, each a list of protocol lines whose
    first line starts with `case`.  The harness (real tlx code) and the Lean
    driver (model) each answer every line with one line; harness lines starting
    with `#VIOL` are verdicts of its direct property oracle.  `compare(op, impl,
    model)` may canonicalise; default is string equality."""
    r = CorrResult()
    r.cases = len(cases)
    r.ops = sum(len(c) - 1 for c in cases)
    impl = _run_impl_cases(hcmd, cases, timeout)
    flat = [l for c in cases for l in c]
    model_cases = None
    if need_driver:
        mout, mrc, merr = run_lines(dcmd, flat, timeout=timeout)
        if mrc != 0 or len(mout) != len(flat):
            r.driver_error = f"driver rc={mrc} lines={len(mout)}/{len(flat)} {merr[-500:]}"
        model_cases, p = [], 0
        for c in cases:
            model_cases.append(mout[p:p + len(c)]); p += len(c)
    for ci, c in enumerate(cases):
        answers, viols, crash = impl[ci]
        r.impl_out.append(answers)
        for v in viols:
            r.viol.append((c, v))
        if crash is not None:
            r.crash.append((c, crash[0], crash[1]))
            continue
        if model_cases is not None:
            m = model_cases[ci]
            for i, (op, a) in enumerate(zip(c, answers)):
                mm = m[i] if i < len(m) else "<no model output>"
                same = compare(op, a, mm) if compare else (a == mm)
                if not same:
                    r.mismatch.append((c, i, a, mm))
                    break
    return r


def ddmin(lines, fails, keep_first=1, budget=400):
    """delta debugging on protocol lines (first `keep_first` lines are kept)."""
    head, body = lines[:keep_first], lines[keep_first:]
    n = 2
    calls = 0
    while len(body) >= 2 and calls < budget:
        chunk = max(1, len(body) // n)
        reduced = False
        for i in range(0, len(body), chunk):
            cand = body[:i] + body[i + chunk:]
            calls += 1
            if cand and fails(head + cand):
                body = cand
                n = max(n - 1, 2)
                reduced = True
                break
            if calls >= budget:
                break
        if not reduced:
            if chunk == 1:
                break
            n = min(len(body), n * 2)
    return head + body


def crash_message(rc, err):
    """one-line class of a harness death (sanitizer summary if there is one)"""
    last = ""
    for l in err.splitlines():
        if "runtime error:" in l or l.startswith("SUMMARY:") or "ERROR: AddressSanitizer" in l or "ERROR: LeakSanitizer" in l:
            last = l.strip()
            if "ERROR:" in l or "runtime error:" in l:
                break
    last = re.sub(r"0x[0-9a-f]+", "ADDR", last)
    last = re.sub(r"==[0-9]+==", "", last)
    last = re.sub(r"^\S+\.(cpp|hpp):[0-9:]+: ", "", last)
    return f"#VIOL crash rc={rc} {last[:160]}"


def case_fails(hcmd, dcmd, compare=None, want="any", accept=None):
    """predicate for ddmin: does this single case still show a property violation
    on the real code (`viol`), a crash, or a model/impl disagreement?  Candidates
    on which the harness answers `bad-op` (an operation whose documented
    precondition does not hold) are never accepted.  `accept(messages)` can
    restrict to the same class of violation."""
    def f(lines):
        r = correspondence(None, hcmd, dcmd, [lines], timeout=300, compare=compare,
                           need_driver=(want in ("any", "mismatch")))
        if any(a.startswith("bad-op") for out in r.impl_out for a in out):
            return False
        msgs = [m for _, m in r.viol] + [crash_message(rc, err) for _, rc, err in r.crash]
        if want == "viol":
            return bool(msgs) and (accept is None or accept(msgs))
        if want == "mismatch":
            return bool(r.mismatch)
        return bool(msgs or r.mismatch)
    return f


# --------------------------------------------------------------------------- known findings

def known_findings(pid):
    """lines `known: property=<id> key=<key> :: text` of known_findings.txt"""
    res = []
    p = os.path.join(VERIF, "known_findings.txt")
    if not os.path.exists(p):
        return res
    for l in open(p):
        l = l.strip()
        m = re.match(r"known:\s+property=(\S+)\s+key=(\S+)\s*::\s*(.*)$", l)
        if m and m.group(1) == pid:
            res.append((m.group(2), m.group(3)))
    return res


# --------------------------------------------------------------------------- evidence / verdict

def write_evidence(ctx, level, coverage, assumptions):
    ev = {
        "property_id": ctx.pid,
        "tier": ctx.tier,
        "seed": int(ctx.seed),
        "level": level,
        "coverage": coverage,
        "assumptions": assumptions,
        "wall_s": round(time.time() - ctx.t0, 2),
        "violations": len(ctx.violations),
        "repo": repo_head(),
    }
    os.makedirs(os.path.join(VERIF, "evidence"), exist_ok=True)
    p = os.path.join(VERIF, "evidence", ctx.pid + ".json")
    with open(p + ".tmp", "w") as f:
        json.dump(ev, f, indent=1, default=str)
    os.replace(p + ".tmp", p)
    return p


def finish(ctx, level, coverage, assumptions):
    for k in ctx.known:
        print(f"KNOWN-FINDING: property={ctx.pid} {k}")
    for replay, text, found in ctx.violations:
        rel = os.path.relpath(replay, VERIF)
        tail = "" if found else " no-failing-input-found"
        print(f"[{ctx.pid}] {text}")
        print(f"VIOLATION property={ctx.pid} replay={rel}{tail}")
    coverage = dict(coverage)
    coverage.setdefault("known_findings_reported", list(ctx.known))
    write_evidence(ctx, level, coverage, assumptions)
    sys.stdout.flush()
    return 1 if ctx.violations else 0
